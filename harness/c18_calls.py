"""C18, round 6 — who produces results, call shapes, numeric extremes, caller-owned objects, process state.

producers   every function under csep/ whose body CONSTRUCTS a result class is found with `ast` on every run (table regenerated
            from the source) and compared with `ResultJson.evalProducers` (driver op `c18_producers`; theorems
            `producers_factory_total`, `producer_result_class_preserved`).  ORACLE: the class a function constructs must have a
            factory entry that builds it (else a result of that function cannot be loaded back as its class); the class of every
            result an evaluation actually returns is checked against the table.  Extra / renamed functions are recorded only.
shapes      one result of every class and one region through every public call written with POSITIONAL and with KEYWORD arguments
            (write_json, load_evaluation_result, load_json, FileSystem(url, name).save(data, backup) / .load(object),
            Class.from_dict(adict), the base-class constructor positionally, CartesianGrid2D.from_dict / from_origins / constructor /
            get_index_of, module-level csep.core.repositories.write_json / load_json): every pairing must satisfy the property.
extremes    results whose numeric fields hold -0.0, subnormals, the largest double, integers beyond 2^53 / 2^63 (python ints, numpy
            int64 / uint64 scalars and arrays), float32 subnormals; distributions of exactly 0, 1, 65535, 65536, 65537 entries;
            regions with an origin at -0.0, crossing zero, at the date line / poles.
caller      what the caller handed over is left alone: the dictionary given to from_dict (results and regions), the array given
            as test_distribution, the origins array given to from_origins, the probe arrays given to get_index_of, the result
            and the region themselves; and what the library handed out earlier is not changed by later calls.
state       the same round trips with a relative file name under another working directory, under TZ=Asia/Tokyo, with warnings
            turned into errors (the serialisation calls themselves must not warn), and after a failed write (an unwritable value)
            on the same FileSystem object / path.
Replay: {"mode": "calls", "sub": <section>, "sub_seed": n}.
"""
import ast
import copy
import json
import math
import os
import random
import warnings

import numpy


def _b():
    from . import c18
    return c18


PRODUCERS = {}          # "module.function" -> sorted list of class names constructed (filled by check_producers)


# ----------------------------------------------------------------------------- producers table
def extract_producers(classes):
    from .core import REPO
    out = {}
    root = os.path.join(REPO, "csep")
    for dp, _, fns in os.walk(root):
        for fn in fns:
            if not fn.endswith(".py"):
                continue
            path = os.path.join(dp, fn)
            try:
                tree = ast.parse(open(path, encoding="utf-8").read())
            except SyntaxError:
                continue
            mod = os.path.splitext(fn)[0]
            for node in ast.walk(tree):
                if isinstance(node, (ast.FunctionDef, ast.AsyncFunctionDef)):
                    made = set()
                    for sub in ast.walk(node):
                        if isinstance(sub, ast.Call):
                            f = sub.func
                            name = f.id if isinstance(f, ast.Name) else (f.attr if isinstance(f, ast.Attribute) else None)
                            if name in classes:
                                made.add(name)
                    if made:
                        out[f"{mod}.{node.name}"] = sorted(made)
    return out


def check_producers(run, classes, factory):
    from .core import Driver
    b = _b()
    src = extract_producers(set(classes))
    PRODUCERS.clear()
    PRODUCERS.update(src)
    run.extra["result_producers"] = {k: v for k, v in sorted(src.items())}
    run.case(dict(mode="producers"), ("producers", len(src)))
    # ORACLE (property): a class some function constructs must be loadable as that class
    if factory is not None:
        for fn, made in sorted(src.items()):
            for c in made:
                if factory.get(c) != c:
                    run.oracle_failure(dict(mode="synthetic", cls=c,
                                            fields={f: ["s" + b.hexs("x")] for f in b.FIELDS if f != "test_distribution"}
                                            | {"test_distribution": ["l0"]}, producer=fn),
                                       f"{fn} constructs {c}, which load_evaluation_result cannot build (factory entry: {factory.get(c)!r})")
    drv = Driver()
    i = drv.ask("c18_producers")
    model = dict(kv.split(">") for kv in drv.run()[i].split("|"))
    flat = {fn: made for fn, made in src.items()}
    for fn, c in model.items():
        if fn not in flat:
            run.count("producers:model-entry-not-in-source(function renamed or removed; recorded)")
        elif flat[fn] != [c]:
            run.mismatch(dict(mode="producers", function=fn), flat[fn], c)
    extra = sorted(set(flat) - set(model))
    if extra:
        run.count("producers:source-has-functions-the-model-table-lacks(recorded)", len(extra))
        run.extra["producers_not_in_model"] = extra
    run.count("producers:functions", len(src))


_LABEL_MOD = {"poisson": "poisson_evaluations", "binomial": "binomial_evaluations", "brier": "brier_evaluations",
              "catalog": "catalog_evaluations"}


def check_produced(run, case, res):
    """the class of a result an evaluation returned is the one its source constructs"""
    label = case.get("label", "")
    if "." not in label or not PRODUCERS:
        return
    m, f = label.split(".", 1)
    made = PRODUCERS.get(f"{_LABEL_MOD.get(m, m)}.{f}")
    if made is None:
        run.count("producers:evaluation-not-in-source-table(recorded)")
    elif type(res).__name__ not in made:
        run.oracle_failure(case, f"{label} returned a {type(res).__name__}; its source constructs {made}")


# ----------------------------------------------------------------------------- helpers
def _extreme_values(rng):
    f32sub = numpy.float32(1e-45)
    return [-0.0, 0.0, 5e-324, -5e-324, 2.2250738585072009e-308, 2.2250738585072014e-308, 1.7976931348623157e308,
            -1.7976931348623157e308, 2 ** 53, 2 ** 53 + 1, -(2 ** 53) - 1, 2 ** 63 - 1, -(2 ** 63), 2 ** 63, 2 ** 64, 10 ** 30,
            numpy.float64(-0.0), numpy.float64(5e-324), numpy.int64(2 ** 53 + 1), numpy.int64(-(2 ** 63)), numpy.int64(2 ** 63 - 1),
            numpy.uint64(2 ** 64 - 1), numpy.uint64(2 ** 63), f32sub, numpy.float32(-0.0), numpy.float16(6e-8),
            float(2 ** 53 + 2), 9007199254740993.0, 1e22, 1e23, 0.1 + 0.2, math.nan, math.inf, -math.inf]


def _extreme_arrays():
    return [numpy.array([2 ** 53 + 1, -(2 ** 63), 2 ** 63 - 1], dtype=numpy.int64),
            numpy.array([2 ** 64 - 1, 2 ** 63, 0], dtype=numpy.uint64),
            numpy.array([-0.0, 5e-324, 2.2250738585072014e-308, 1.7976931348623157e308, math.nan, -math.inf]),
            numpy.array([-0.0, 1e-45, 3.4028235e38], dtype=numpy.float32),
            numpy.array([-0.0, 5e-324], dtype=">f8"), numpy.array([2 ** 53 + 1], dtype=">i8"),
            numpy.array([[-0.0, 0.0], [5e-324, 1.0]]), numpy.array([], dtype=numpy.int64)]


def _mk(cls, **kw):
    import csep.models as M
    base = dict(test_distribution=[1.0, 2.0], name="N", observed_statistic=1.5, quantile=(0.25, 0.75), status="normal",
                obs_catalog_repr="", sim_name="sim", obs_name="obs", min_mw=4.95)
    base.update(kw)
    return getattr(M, cls)(**base)


def _vals(res):
    b = _b()
    return {f: getattr(res, f) for f in b.FIELDS}


def _judge(run, case, how, loaded, res):
    b = _b()
    vals = _vals(res)
    kinds = {f: b.kind_of(vals[f]) for f in b.FIELDS}
    b._judge_loaded(run, case, how, loaded, type(res).__name__, vals, kinds)


# ----------------------------------------------------------------------------- shapes
def sec_shapes(run, rng, case, tmp, classes):
    import csep
    from csep import models as M
    from csep.core import repositories as R
    from csep.core.regions import CartesianGrid2D
    b = _b()
    clsname = rng.choice(sorted(classes))
    cls = getattr(M, clsname)
    td = rng.choice([[1.0, -0.0, 2.5], numpy.array([1.0, math.nan]), (3, 4), []])
    res = _mk(clsname, test_distribution=td, observed_statistic=rng.choice([1.5, -math.inf, None, 7]),
              quantile=rng.choice([(0.1, 0.9), 0.5, None]), name=rng.choice(["N-Test", "µ ✓", " x "]))
    run.case(case, ("shapes", clsname))
    p = os.path.join(tmp, "shape.json")
    writers = {"write_json(res, p)": lambda: csep.write_json(res, p),
               "write_json(object=, fname=)": lambda: csep.write_json(object=res, fname=p),
               "write_json(fname=, object=)": lambda: csep.write_json(fname=p, object=res),
               "repositories.write_json(res, fname=)": lambda: R.write_json(res, fname=p),
               "FileSystem(p).save(d)": lambda: R.FileSystem(p).save(res.to_dict()),
               "FileSystem(url=, name=).save(data=, backup=False)": lambda: R.FileSystem(url=p, name="n").save(data=res.to_dict(), backup=False),
               "FileSystem(p, 'n').save(d, True)": lambda: R.FileSystem(p, "n").save(res.to_dict(), True),
               "FileSystem(name=, url=).save(backup=True, data=)": lambda: R.FileSystem(name="n", url=p).save(backup=True, data=res.to_dict())}
    loaders = {"load_evaluation_result(p)": lambda: csep.load_evaluation_result(p),
               "load_evaluation_result(fname=)": lambda: csep.load_evaluation_result(fname=p),
               "load_json(cls, p)": lambda: csep.load_json(cls, p),
               "load_json(object=, fname=)": lambda: csep.load_json(object=cls, fname=p),
               "load_json(fname=, object=)": lambda: csep.load_json(fname=p, object=cls),
               "repositories.load_json(cls, fname=)": lambda: R.load_json(cls, fname=p),
               "FileSystem(p).load(cls)": lambda: R.FileSystem(p).load(cls),
               "FileSystem(url=).load(object=)": lambda: R.FileSystem(url=p).load(object=cls),
               "from_dict(adict=json)": lambda: cls.from_dict(adict=json.load(open(p))),
               "from_dict(json)": lambda: cls.from_dict(json.load(open(p)))}
    wnames = rng.sample(sorted(writers), 3)
    for wn in wnames:
        for stale in os.listdir(tmp):
            if stale.startswith("shape"):
                os.remove(os.path.join(tmp, stale))
        w = b._try(lambda: (writers[wn](), None)[1])
        if isinstance(w, str):
            run.oracle_failure(dict(case, writer=wn), f"{wn} raised {w}")
            continue
        for ln in rng.sample(sorted(loaders), 4):
            _judge(run, dict(case, writer=wn), f"{wn} -> {ln}", b._try(loaders[ln]), res)
            run.count("shapes:result-pair")
    # the base class takes its nine arguments positionally too
    pos = b._try(lambda: M.EvaluationResult([1.0, 2.0], "N", 1.5, (0.25, 0.75), "normal", "repr", "sim", "obs", 4.95))
    kw = _mk("EvaluationResult", obs_catalog_repr="repr")
    if isinstance(pos, str) or any(not b.same(b.py_norm(getattr(pos, f), td=True), b.py_norm(getattr(kw, f), td=True)) for f in b.FIELDS):
        run.oracle_failure(dict(case, what="positional-constructor"), f"EvaluationResult(*nine positional arguments) differs from the keyword form: {pos!r}")
    elif not isinstance(pos, str):
        csep.write_json(pos, p)
        _judge(run, dict(case, what="positional-constructor"), "positional constructor -> write_json -> load_evaluation_result",
               b._try(lambda: csep.load_evaluation_result(p)), kw)
    # regions
    dh = rng.choice([0.1, 0.25, 0.5])
    lon0, lat0 = rng.choice([-30.0, 12.5, 100.2]), rng.choice([-20.0, 41.5])
    cells = [(i, j) for i in range(rng.randint(2, 4)) for j in range(rng.randint(2, 4))]
    if rng.random() < 0.5:
        rng.shuffle(cells)
    o = numpy.array([(lon0 + dh * i, lat0 + dh * j) for i, j in cells])
    probes = [(x + dh / 2, y + dh / 2) for x, y in o.tolist()] + [(float(o[0, 0]), float(o[0, 1])), (lon0 - dh, lat0)]
    r = CartesianGrid2D.from_origins(o, dh=dh, name="shape")
    a = [b.locate(r, q) for q in probes]
    rp = os.path.join(tmp, "shape_region.json")
    from csep.core.regions import compute_vertices
    from csep.models import Polygon
    builds = {"from_origins(o, dh, None, name)": lambda: CartesianGrid2D.from_origins(o, dh, None, "shape"),
              "from_origins(name=, magnitudes=, dh=, origins=)": lambda: CartesianGrid2D.from_origins(name="shape", magnitudes=None, dh=dh, origins=o),
              "CartesianGrid2D(name=, dh=, polygons=)": lambda: CartesianGrid2D(name="shape", dh=dh, polygons=[Polygon(v) for v in compute_vertices(o, dh)]),
              "CartesianGrid2D(polys, dh, 'shape', None, None)": lambda: CartesianGrid2D([Polygon(v) for v in compute_vertices(o, dh)], dh, "shape", None, None),
              "from_dict(adict=to_dict())": lambda: CartesianGrid2D.from_dict(adict=r.to_dict()),
              "write_json(object=, fname=) -> load_json(fname=, object=)": lambda: (csep.write_json(object=r, fname=rp), csep.load_json(fname=rp, object=CartesianGrid2D))[1],
              "FileSystem(url=).save(data=) -> .load(object=)": lambda: (R.FileSystem(url=rp).save(data=r.to_dict()), R.FileSystem(url=rp).load(object=CartesianGrid2D))[1]}
    for how, fn in builds.items():
        def idx(fn=fn):
            x = fn()
            kwidx = int(x.get_index_of(lats=[probes[0][1]], lons=[probes[0][0]])[0])      # keyword form, other order
            return [b.locate(x, q) for q in probes], kwidx
        c = b._try(idx)
        if isinstance(c, str) or c[0] != a or c[1] != a[0]:
            run.oracle_failure(dict(case, build=how), f"region through {how}: indexes the probes differently from "
                                                      f"from_origins(o, dh=dh): {c if isinstance(c, str) else (c[0][:6], c[1])} vs {a[:6]}")
        run.count("shapes:region-build")


# ----------------------------------------------------------------------------- extremes
def sec_extremes(run, rng, case, tmp, classes):
    import csep
    from csep.core.regions import CartesianGrid2D
    b = _b()
    clsname = rng.choice(sorted(classes))
    ev = _extreme_values(rng)
    kind = rng.randrange(4)
    if kind == 0:
        td = [rng.choice(ev) for _ in range(rng.randrange(1, 8))]
    elif kind == 1:
        td = rng.choice(_extreme_arrays())
    elif kind == 2:
        n = rng.choice([0, 1, 65535, 65536, 65537])
        td = numpy.arange(n, dtype=float)
        if n:
            td[-1] = rng.choice([-0.0, 5e-324, math.inf, 2.0 ** 53 + 2])
    else:
        td = tuple(rng.choice(ev) for _ in range(3))
    res = _mk(clsname, test_distribution=td, observed_statistic=rng.choice(ev), quantile=rng.choice([rng.choice(ev), (rng.choice(ev), rng.choice(ev))]),
              min_mw=rng.choice(ev))
    run.case(case, ("extremes", clsname, kind, b.kind_of(res.observed_statistic), b.kind_of(res.min_mw)))
    p = os.path.join(tmp, "extreme.json")
    safe = all(b.is_safe(getattr(res, f), td=(f == "test_distribution")) for f in b.FIELDS)
    w = b._try(lambda: (csep.write_json(res, p), None)[1])
    if isinstance(w, str):
        if safe:
            run.oracle_failure(case, f"write_json of a result with extreme but ordinary numbers raised {w}")
        return
    if safe:
        cls = type(res)
        for how, fn in (("write_json -> load_evaluation_result", lambda: csep.load_evaluation_result(p)),
                        ("write_json -> load_json(Class)", lambda: csep.load_json(cls, p)),
                        ("to_dict -> from_dict", lambda: cls.from_dict(res.to_dict()))):
            _judge(run, case, how, b._try(fn), res)
        run.count("extremes:result")
    # a region with an origin at -0.0 / across zero / at the edges of the globe
    dh = rng.choice([0.5, 0.25, 1.0])
    lon0, lat0 = rng.choice([(-0.0, -0.0), (-dh, -dh), (-180.0, -90.0), (180.0 - 2 * dh, 90.0 - 2 * dh), (-2 * dh, 0.0),
                             # first coordinates at / beyond 180: lattices in 0..360, across 180, beyond 360, plain km grids
                             (180.0 - dh, 10.0), (180.0, -10.0), (200.0 + dh, 30.0), (358.0, -45.0), (360.0, 0.0), (500.0, 100.0),
                             (0.0, 0.0), (-400.0, -200.0)])
    if rng.random() < 0.25:
        dh = rng.choice([100.0, 50.0, 10.0])           # a grid in kilometres
        lon0, lat0 = rng.choice([(0.0, 0.0), (100.0, 300.0), (-500.0, 900.0)])
    o = numpy.array([(lon0 + dh * i, lat0 + dh * j) for i in range(3) for j in range(2)])
    if rng.random() < 0.5:
        o[o == 0.0] = -0.0
    probes = [(x + dh / 2, y + dh / 2) for x, y in o.tolist()] + [(x, y) for x, y in o.tolist()] + [(0.0, 0.0), (-0.0, -0.0), (-0.0, 0.0)]
    rcase = dict(case, region=dict(lon0=repr(lon0), lat0=repr(lat0), dh=dh))
    try:
        r = CartesianGrid2D.from_origins(o, dh=dh, name="zero")
        a = [b.locate(r, q) for q in probes]
    except Exception as e:
        run.count(f"extremes:region-unbuildable:{type(e).__name__}")
        return
    rp = os.path.join(tmp, "extreme_region.json")
    for how, fn in (("from_dict(to_dict())", lambda: CartesianGrid2D.from_dict(r.to_dict())),
                    ("write_json -> load_json", lambda: (csep.write_json(r, rp), csep.load_json(CartesianGrid2D, rp))[1])):
        c = b._try(lambda fn=fn: [b.locate(fn(), q) for q in probes])
        if c != a:
            j = 0 if isinstance(c, str) else [i for i in range(len(a)) if a[i] != c[i]][0]
            run.oracle_failure(dict(rcase, pair=how), f"region with origins at / around -0.0, {how}: point {probes[j]!r}: original index {a[j]}, "
                                                      f"rebuilt {c if isinstance(c, str) else c[j]}")
    run.count("extremes:region")


# ----------------------------------------------------------------------------- caller-owned objects
def _snap(x):
    if isinstance(x, numpy.ndarray):
        return ("nd", x.dtype.str, x.shape, x.tobytes())
    if isinstance(x, dict):
        return ("d", [(k, _snap(v)) for k, v in x.items()])
    if isinstance(x, (list, tuple)):
        return (type(x).__name__, [_snap(v) for v in x])
    if isinstance(x, float):
        return ("f", x.hex() if x == x else "nan")
    return (type(x).__name__, repr(x))


def sec_caller(run, rng, case, tmp, classes):
    import csep
    from csep import models as M
    from csep.core.regions import CartesianGrid2D
    b = _b()
    clsname = rng.choice(sorted(classes))
    cls = getattr(M, clsname)
    run.case(case, ("caller", clsname))
    arr = numpy.array([3.0, -0.0, math.nan, 1.5]) if rng.random() < 0.5 else numpy.arange(5, dtype=">i8")
    q = [0.25, 0.75]
    res = _mk(clsname, test_distribution=arr, quantile=q)
    s_arr, s_q, s_res = _snap(arr), _snap(q), _snap(_vals(res))
    p = os.path.join(tmp, "caller.json")
    d1 = res.to_dict()
    csep.write_json(res, p)
    d2 = res.to_dict()
    if _snap(arr) != s_arr or _snap(q) != s_q or _snap(_vals(res)) != s_res or res.test_distribution is not arr:
        run.oracle_failure(dict(case, what="result-changed"), "to_dict / write_json changed the result or the array / list the caller gave it")
    # what to_dict handed out is the caller's: editing it must not reach the result, nor later dictionaries
    if isinstance(d1.get("test_distribution"), list) and d1["test_distribution"]:
        d1["test_distribution"][0] = 12345.0
        d1["name"] = "edited"
        if _snap(arr) != s_arr or _snap(res.to_dict()) != _snap(d2):
            run.oracle_failure(dict(case, what="to_dict-aliased"), "editing a dictionary returned by to_dict() changed the result / its array")
    # the dictionary handed to from_dict is the caller's
    d = json.load(open(p))
    s_d = _snap(d)
    back = b._try(lambda: cls.from_dict(d))
    if _snap(d) != s_d:
        run.oracle_failure(dict(case, what="from_dict-mutates"), "from_dict changed the dictionary it was given")
    _judge(run, dict(case, what="caller"), "from_dict(json.load)", back, res)
    lr = b._try(lambda: csep.load_evaluation_result(p))
    if not isinstance(lr, str) and not isinstance(back, str):
        # two loads are independent objects: editing one does not show in the other
        try:
            if isinstance(lr.test_distribution, list) and lr.test_distribution:
                lr.test_distribution[0] = -777.0
            lr.name = "other"
        except Exception:
            pass
        _judge(run, dict(case, what="loads-independent"), "load_evaluation_result (after another loaded object was edited)",
               b._try(lambda: csep.load_evaluation_result(p)), res)
    # regions
    dh = 0.5
    cells = [(i, j) for i in range(3) for j in range(2)]
    rng.shuffle(cells)                      # not in sorted order: an in-place sort of the caller's array is then visible
    o = numpy.array([(10.0 + dh * i, 40.0 + dh * j) for i, j in cells])
    s_o = _snap(o)
    r = CartesianGrid2D.from_origins(o, dh=dh, name="caller")
    lons = numpy.array([10.25, 10.75, 11.0]); lats = numpy.array([40.25, 40.75, 40.0])
    s_l = (_snap(lons), _snap(lats))
    a = [int(x) for x in r.get_index_of(lons, lats)]
    rd = r.to_dict()
    s_rd = _snap(rd)
    r2 = CartesianGrid2D.from_dict(rd)
    a2 = [int(x) for x in r2.get_index_of(lons, lats)]
    if _snap(o) != s_o or (_snap(lons), _snap(lats)) != s_l or _snap(rd) != s_rd:
        run.oracle_failure(dict(case, what="region-caller-objects"), "from_origins / get_index_of / from_dict changed an array or dictionary the caller gave")
    if isinstance(rd, dict):                      # edit whatever the dictionary holds (its members may be named differently)
        for k_, v_ in list(rd.items()):
            if isinstance(v_, list):
                v_.reverse()
            elif isinstance(v_, float):
                rd[k_] = v_ * 2 + 1.0
    a3 = [int(x) for x in r.get_index_of(lons, lats)]
    a4 = [int(x) for x in r2.get_index_of(lons, lats)]
    if not (a == a2 == a3 == a4):
        run.oracle_failure(dict(case, what="region-aliased"), f"region indices {a} / rebuilt {a2}; after the caller edited the dictionary: {a3} / {a4}")
    # what the region / a forecast hands OUT is the caller's to edit: origins(), midpoints(), get_bbox(), get_longitudes() …
    from csep.core.forecasts import GriddedForecast
    before = (_snap(r.to_dict()), a)
    handed = {"origins()": lambda: r.origins(), "midpoints()": lambda: r.midpoints(),
              "to_dict() lists": lambda: [v_ for v_ in r.to_dict().values() if isinstance(v_, list)][0]}
    try:
        gf = GriddedForecast(data=numpy.ones((len(cells), 1)), region=r, magnitudes=numpy.array([4.0]), name="g")
        handed["forecast.get_longitudes()"] = lambda: gf.get_longitudes()
        handed["forecast.get_latitudes()"] = lambda: gf.get_latitudes()
    except Exception:
        gf = None
    for what, get in handed.items():
        try:
            x = get()
            first = _snap(x)
            if isinstance(x, numpy.ndarray):
                x += dh / 2
            elif isinstance(x, list) and x:
                x.reverse()
                if isinstance(x[0], dict):
                    x[0]["lon"] = 999.0
            again = _snap(get())
        except Exception as e:
            run.oracle_failure(dict(case, what="returned-object", api=what), f"{what} / editing what it returned raised {type(e).__name__}: {e}")
            continue
        now = b._try(lambda: (_snap(r.to_dict()), [int(v) for v in r.get_index_of(lons, lats)]))
        rebuilt = b._try(lambda: [int(v) for v in CartesianGrid2D.from_dict(r.to_dict()).get_index_of(lons, lats)])
        if again != first or now != before or rebuilt != a:
            run.oracle_failure(dict(case, what="returned-object", api=what),
                               f"after the caller edited in place what {what} returned: the next {what} / the dictionary form / the indices changed")
        run.count("caller:returned-object-edited")
    o[:, 0] += 7.0
    if [int(x) for x in r.get_index_of(lons, lats)] != a:
        run.count("caller:region-keeps-a-view-of-the-origins-array(recorded)")
    run.count("caller:done")


# ----------------------------------------------------------------------------- process state
def sec_state(run, rng, case, tmp, classes):
    import csep
    import time
    from csep.core.repositories import FileSystem
    from csep.core.regions import CartesianGrid2D
    b = _b()
    clsname = rng.choice(sorted(classes))
    res = _mk(clsname, test_distribution=[1.0, math.nan, -math.inf], name="état ✓")
    run.case(case, ("state", clsname))
    sub = os.path.join(tmp, "cwd_a")
    other = os.path.join(tmp, "cwd_b")
    os.makedirs(sub, exist_ok=True)
    os.makedirs(other, exist_ok=True)
    old = os.getcwd()
    oldtz = os.environ.get("TZ")
    try:
        os.chdir(sub)
        csep.write_json(res, "rel.json")
        _judge(run, dict(case, what="relative-path"), "write_json('rel.json') -> load_evaluation_result('rel.json')",
               b._try(lambda: csep.load_evaluation_result("rel.json")), res)
        os.chdir(other)
        _judge(run, dict(case, what="other-cwd"), "load_evaluation_result(absolute path) from another working directory",
               b._try(lambda: csep.load_evaluation_result(os.path.join(sub, "rel.json"))), res)
        _judge(run, dict(case, what="other-cwd"), "load_json(Class, '../cwd_a/rel.json')",
               b._try(lambda: csep.load_json(type(res), os.path.join("..", "cwd_a", "rel.json"))), res)
    finally:
        os.chdir(old)
    # path forms: './name', pathlib.Path, a str subclass, for every writer / reader
    import pathlib

    class _P(str):
        pass
    try:
        os.chdir(sub)
        forms = {"'./x.json'": "./x.json", "pathlib.Path": pathlib.Path(sub) / "p.json", "pathlib relative": pathlib.Path("q.json"),
                 "str subclass": _P(os.path.join(sub, "s.json")), "bare name": "bare.json"}
        for fname, fp in forms.items():
            for wn, w in (("write_json", lambda fp=fp: csep.write_json(res, fp)), ("FileSystem.save", lambda fp=fp: FileSystem(url=fp).save(res.to_dict()))):
                ww = b._try(lambda: (w(), None)[1])
                if isinstance(ww, str):
                    run.oracle_failure(dict(case, what="path-form", form=fname, writer=wn), f"{wn} with a {fname} path raised {ww}")
                    continue
                for ln, l in (("load_evaluation_result", lambda fp=fp: csep.load_evaluation_result(fp)),
                              ("load_json", lambda fp=fp: csep.load_json(type(res), fp)),
                              ("FileSystem.load", lambda fp=fp: FileSystem(url=fp).load(type(res)))):
                    _judge(run, dict(case, what="path-form", form=fname), f"{wn}({fname}) -> {ln}({fname})", b._try(l), res)
                run.count("state:path-form")
    finally:
        os.chdir(old)
    p = os.path.join(tmp, "state.json")
    try:
        os.environ["TZ"] = rng.choice(["Asia/Tokyo", "America/Los_Angeles"])
        time.tzset()
        csep.write_json(res, p)
        _judge(run, dict(case, what="TZ"), "write_json -> load_evaluation_result under another TZ", b._try(lambda: csep.load_evaluation_result(p)), res)
    finally:
        if oldtz is None:
            os.environ.pop("TZ", None)
        else:
            os.environ["TZ"] = oldtz
        time.tzset()
    # warnings are errors: the serialisation calls themselves must not warn
    r = CartesianGrid2D.from_origins(numpy.array([[0.0, 0.0], [0.5, 0.0], [0.0, 0.5], [0.5, 0.5]]), dh=0.5, name="w")
    with warnings.catch_warnings():
        warnings.simplefilter("default")        # a warning alone is never a violation
        w = b._try(lambda: (csep.write_json(res, p), csep.load_evaluation_result(p))[1])
        _judge(run, dict(case, what="warnings-as-errors"), "write_json -> load_evaluation_result with warnings as errors", w, res)
        rr = b._try(lambda: [b.locate(CartesianGrid2D.from_dict(r.to_dict()), q) for q in [(0.25, 0.25), (0.5, 0.5), (0.75, 0.1)]])
        if rr != [b.locate(r, q) for q in [(0.25, 0.25), (0.5, 0.5), (0.75, 0.1)]]:
            run.oracle_failure(dict(case, what="warnings-as-errors"), f"region round trip with warnings as errors: {rr}")
    # after a failed write of something json cannot encode, the same repository / path still works
    fs = FileSystem(url=p)
    bad = b._try(lambda: fs.save({"k": {1, 2}, 3: "mixed", "x": 1}))
    fs.save(res.to_dict())
    _judge(run, dict(case, what="after-failed-write"), "FileSystem.save after a failed save on the same object -> load_evaluation_result",
           b._try(lambda: csep.load_evaluation_result(p)), res)
    run.count("state:done" + ("" if isinstance(bad, str) else ":unencodable-value-was-written"))


SECTIONS = dict(shapes=sec_shapes, extremes=sec_extremes, caller=sec_caller, state=sec_state)


def run_case(run, sub, sub_seed, tmp, classes):
    rng = random.Random(sub_seed)
    case = dict(mode="calls", sub=sub, sub_seed=sub_seed)
    b = _b()
    try:
        with b.quiet():
            SECTIONS[sub](run, rng, case, tmp, classes)
    except Exception as e:            # the examination itself failed on an implementation output: reported with the case
        import traceback
        tb = traceback.extract_tb(e.__traceback__)[-1]
        run.oracle_failure(case, f"{sub}: the implementation's output could not be examined ({type(e).__name__}: {e}; "
                                 f"{os.path.basename(tb.filename)}:{tb.lineno})"[:400])


def run_all(run, rng, thorough, tmp, classes):
    plan = [("shapes", 150 if thorough else 16), ("extremes", 400 if thorough else 36), ("caller", 100 if thorough else 12),
            ("state", 40 if thorough else 6), ("round7", 300 if thorough else 30)]
    define_user_classes()
    for sub, n in plan:
        for _ in range(n):
            run_case(run, sub, rng.randrange(2 ** 31), tmp, classes)


# ----------------------------------------------------------------------------- round 7: classes (h) … (m)
USER_CLASSES = {}


def define_user_classes():
    """(j) the calling program extends library result classes under the SAME name (the usual way to add a custom plot) and defines
    result classes of its own; they stay alive for the whole run, so every loader meets them in `__subclasses__`"""
    import csep.models as M
    if USER_CLASSES:
        return USER_CLASSES
    b = _b()
    classes, _, _ = b.extract_tables()
    for name in classes:
        lib = getattr(M, name)

        def __init__(self, *a, _lib=lib, **kw):
            _lib.__init__(self, *a, **kw)
            self.status = "made-by-the-user-class"            # visible if a loader builds this class instead of the library's
            if isinstance(self.test_distribution, list):
                self.test_distribution = sorted(x for x in self.test_distribution if isinstance(x, (int, float)) and x == x)
        USER_CLASSES[name] = type(name, (lib,), {"__init__": __init__, "__module__": "user_program", "plot": lambda self, *a, **k: "custom"})
    USER_CLASSES["MyOwnResult"] = type("MyOwnResult", (M.EvaluationResult,), {"__module__": "user_program"})
    return USER_CLASSES


def sec_round7(run, rng, case, tmp, classes):
    import copy
    import decimal
    import pickle
    import csep
    from csep import models as M
    from csep.core.repositories import FileSystem
    from csep.core.regions import CartesianGrid2D
    b = _b()
    users = define_user_classes()
    clsname = rng.choice(sorted(classes))
    lib = getattr(M, clsname)
    n = rng.choice([0, 1, 2, 5])                                                           # (m)
    td = [rng.choice([3.5, -1.0, 2.0, math.inf, 0.25, 7]) for _ in range(n)]
    res = _mk(clsname, test_distribution=list(td), observed_statistic=rng.choice([1.5, None, -math.inf]), status=rng.choice(["normal", ""]))
    run.case(case, ("round7", clsname, n))
    p = os.path.join(tmp, "r7.json")

    def identity(how, loaded):
        if not isinstance(loaded, str) and type(loaded) is not lib:
            run.oracle_failure(dict(case, what="same-name-user-class", loader=how),
                               f"{how}: a {clsname} written by the library was loaded as {type(loaded).__module__}.{type(loaded).__name__} "
                               f"(a class of the calling program with the same name), not as csep.models.{clsname}")
    # ---- (j) same-name user classes exist in the interpreter
    csep.write_json(res, p)
    for how, fn in (("load_evaluation_result", lambda: csep.load_evaluation_result(p)), ("load_json(csep.models.Class)", lambda: csep.load_json(lib, p)),
                    ("FileSystem.load", lambda: FileSystem(url=p).load(lib)), ("from_dict(to_dict())", lambda: lib.from_dict(res.to_dict()))):
        loaded = b._try(fn)
        _judge(run, dict(case, what="same-name-user-class"), how, loaded, res)
        identity(how, loaded)
    own = users["MyOwnResult"](test_distribution=list(td), name="own", observed_statistic=2.5, quantile=0.5, status="s", obs_catalog_repr="",
                               sim_name="a", obs_name="b", min_mw=4.0)
    po = os.path.join(tmp, "r7_own.json")
    back = b._try(lambda: (csep.write_json(own, po), csep.load_json(users["MyOwnResult"], po))[1])
    if isinstance(back, str) or type(back) is not users["MyOwnResult"] or not b.same(b.py_norm(back.test_distribution, td=True), b.py_norm(td)):
        run.oracle_failure(dict(case, what="user-result-class"), f"a result class of the calling program through write_json -> load_json(Class): {back!r}")
    # ---- (h) copies / pickles before use
    for how, f in (("copy.copy", copy.copy), ("copy.deepcopy", copy.deepcopy), ("pickle", lambda x: pickle.loads(pickle.dumps(x)))):
        r2 = b._try(lambda: f(res))
        if isinstance(r2, str):
            run.count(f"round7:copy-form-unavailable:{how}")
            continue
        loaded = b._try(lambda: (csep.write_json(r2, p), csep.load_evaluation_result(p))[1])
        _judge(run, dict(case, what="copy-before-use", form=how), f"{how}(result) -> write_json -> load_evaluation_result", loaded, res)
        identity(how, loaded)
    dh = rng.choice([0.1, 0.25, 0.5])
    cells = [(i, j) for i in range(rng.randint(2, 4)) for j in range(rng.randint(2, 3))]
    rng.shuffle(cells)
    lon0, lat0 = rng.choice([-30.0, 100.2, 179.0]), rng.choice([-20.0, 41.5])
    o = numpy.array([(lon0 + dh * i, lat0 + dh * j) for i, j in cells])
    r = CartesianGrid2D.from_origins(o, dh=dh, name="r7")
    probes = [(x + dh / 2, y + dh / 2) for x, y in o.tolist()] + [(float(o[0, 0]), float(o[0, 1])), (lon0 - dh, lat0)]
    a = [b.locate(r, q) for q in probes]
    for how, f in (("copy.copy", copy.copy), ("copy.deepcopy", copy.deepcopy), ("pickle", lambda x: pickle.loads(pickle.dumps(x)))):
        c = b._try(lambda: [b.locate(CartesianGrid2D.from_dict(f(r).to_dict()), q) for q in probes])
        c2 = b._try(lambda: [b.locate(f(CartesianGrid2D.from_dict(r.to_dict())), q) for q in probes])
        if c != a or c2 != a:
            run.oracle_failure(dict(case, what="copy-before-use", form=how), f"region {how} before / after the dictionary round trip indexes differently: {c} / {c2} vs {a}")
    # ---- (i) state after a caught exception
    rejected = 0
    garbage = os.path.join(tmp, "r7_garbage.json")
    open(garbage, "w").write('{"type": "CatalogNumberTestResult", "name": ')
    for bad in (lambda: csep.load_evaluation_result(garbage), lambda: csep.load_evaluation_result(os.path.join(tmp, "missing.json")),
                lambda: lib.from_dict({"name": "x"}), lambda: CartesianGrid2D.from_dict({"dh": dh}), lambda: CartesianGrid2D.from_dict({"polygons": [{"lon": 1}], "dh": dh}),
                lambda: csep.write_json(_mk(clsname, test_distribution=3.5), p), lambda: FileSystem(url=p).save({"k": {1, 2}}),
                lambda: csep.load_json(lib, garbage), lambda: r.get_index_of([lon0 - 50.0], [lat0])):
        try:
            bad()
        except Exception:
            rejected += 1
    run.count("round7:rejected-calls", rejected)
    loaded = b._try(lambda: (csep.write_json(res, p), csep.load_evaluation_result(p))[1])
    _judge(run, dict(case, what="after-rejected-calls"), "write_json -> load_evaluation_result after rejected calls", loaded, res)
    identity("after rejected calls", loaded)
    c = b._try(lambda: [b.locate(CartesianGrid2D.from_dict(r.to_dict()), q) for q in probes])
    if c != a or [b.locate(r, q) for q in probes] != a:
        run.oracle_failure(dict(case, what="after-rejected-calls"), f"region round trip after rejected calls indexes differently: {c} vs {a}")
    # ---- (k) global numeric state
    with numpy.errstate(all="raise"), decimal.localcontext() as dctx:
        dctx.prec = rng.randrange(2, 7)
        loaded = b._try(lambda: (csep.write_json(res, p), csep.load_evaluation_result(p))[1])
        _judge(run, dict(case, what="numeric-state"), f"write_json -> load_evaluation_result under numpy.errstate(all='raise'), decimal prec {dctx.prec}", loaded, res)
        c = b._try(lambda: [b.locate(CartesianGrid2D.from_dict(r.to_dict()), q) for q in probes])
        c3 = b._try(lambda: [b.locate((csep.write_json(r, p), csep.load_json(CartesianGrid2D, p))[1], q) for q in probes])
        if c != a or c3 != a:
            run.oracle_failure(dict(case, what="numeric-state"), f"region rebuilt under numpy.errstate(all='raise') / decimal prec {dctx.prec}: {c} / {c3} vs {a}")
    # ---- (l) one object in two roles
    p2 = os.path.join(tmp, "r7_b.json")
    d = res.to_dict()
    l1 = b._try(lambda: (csep.write_json(res, p), csep.write_json(res, p2), csep.load_evaluation_result(p), csep.load_evaluation_result(p2))[2:])
    if isinstance(l1, str):
        run.oracle_failure(dict(case, what="two-roles"), f"one result written to two files: {l1}")
    else:
        for x in l1:
            _judge(run, dict(case, what="two-roles"), "one result written to two files", x, res)
    two = b._try(lambda: (lib.from_dict(d), lib.from_dict(d)))
    if not isinstance(two, str):
        if two[0] is two[1]:
            run.oracle_failure(dict(case, what="two-roles"), "from_dict of one dictionary twice returned the same object")
        _judge(run, dict(case, what="two-roles"), "from_dict of one dictionary, second object", two[1], res)
    rd = r.to_dict()
    ra, rb = CartesianGrid2D.from_dict(rd), CartesianGrid2D.from_dict(rd)
    if ra is rb or [b.locate(ra, q) for q in probes] != a or [b.locate(rb, q) for q in probes] != a:
        run.oracle_failure(dict(case, what="two-roles"), "two regions rebuilt from one dictionary object index differently / are one object")
    run.count("round7:done")


SECTIONS["round7"] = sec_round7
