"""C18, value-tree / record layer: correspondence of json.dump(sort_keys=True, default=_json_default)/json.load on values WITH
dictionaries, of whole result files, EvaluationConfiguration / Event / FileSystem objects and region dictionaries
(CartesianGrid2D.from_dict error branches, optional magnitudes, QuadtreeGrid2D.to_dict) with Model/JsonTree.lean and
Model/JsonRecords.lean (driver ops of Drive/C18b.lean).  Every sub-check is driven by its own random.Random(sub_seed); the
case (= the replay) is `dict(mode="tree", section=…, sub_seed=…)`."""
import copy
import datetime
import json
import math
import os
import random

import numpy

SECTIONS = ("result", "evalcfg", "event", "repo", "regdict", "quadtree")


def B():
    from . import c18
    return c18


# ----------------------------------------------------------------------------- encoding with dicts
def key_tok(k):
    b = B()
    if isinstance(k, str):
        return "ks" + b.hexs(str(k))
    if type(k) is bool:
        return "kb1" if k else "kb0"
    if type(k) is int:
        return f"ki{k}"
    if k is None:
        return "kn"
    return "kx" + b.hexs(repr(k))


def enc(v, td=False, canon=False):
    """c18.enc plus dicts: `d<k>` then k x (key token, value); canon=True sorts the entries by key token (printed form)"""
    b = B()
    t = type(v)
    if t is dict:
        ents = [(key_tok(k), enc(e, canon=canon)) for k, e in v.items()]
        if canon:
            ents.sort(key=lambda e: e[0])
        return [f"d{len(ents)}"] + [x for kt, ev in ents for x in [kt] + ev]
    if t is list:
        return [f"l{len(v)}"] + [x for e in v for x in enc(e, canon=canon)]
    if t is tuple:
        return [f"t{len(v)}"] + [x for e in v for x in enc(e, canon=canon)]
    if isinstance(v, numpy.ndarray) and td and v.ndim >= 1:
        tl = v.tolist()
        return [f"a{len(tl)}"] + [x for e in tl for x in enc(e, canon=canon)]
    return b.enc(v, td=td)


def encs(v, **kw):
    return ",".join(enc(v, **kw))


def is_safe(v, td=False):
    b = B()
    t = type(v)
    if t is dict:
        return all(isinstance(k, str) for k in v) and all(is_safe(e) for e in v.values())
    if t in (list, tuple):
        return all(is_safe(e) for e in v)
    if isinstance(v, numpy.ndarray) and td:
        return all(is_safe(e) for e in (v.tolist() if v.ndim else [v.tolist()]))
    return b.is_safe(v, td=td)


def py_norm(v, td=False):
    b = B()
    t = type(v)
    if t is dict:
        return {str(k): py_norm(e) for k, e in v.items()}
    if t in (list, tuple):
        return [py_norm(e) for e in v]
    if isinstance(v, numpy.ndarray) and td:
        return py_norm(v.tolist())
    return b.py_norm(v, td=td)


def same(a, b_):
    b = B()
    if isinstance(a, dict) or isinstance(b_, dict):
        return isinstance(a, dict) and isinstance(b_, dict) and a.keys() == b_.keys() and all(same(a[k], b_[k]) for k in a)
    if isinstance(a, list) and isinstance(b_, list):
        return len(a) == len(b_) and all(same(x, y) for x, y in zip(a, b_))
    return b.same(a, b_)


# ----------------------------------------------------------------------------- generators
STR_KEYS = ["name", "version", "fnames", "", "1", "true", "null", "a b", "µ✓", "delta1", "delta2", "k\n", "Z", "z"]


def gen_dict(rng, depth, allow_unsafe):
    b = B()
    n = rng.choice([0, 1, 1, 2, 3, 5])
    mode = "str"
    if allow_unsafe and rng.random() < 0.45:
        mode = rng.choice(["int", "intbool", "none", "mixed", "npint", "tuple", "nonemixed", "npstr"])
    if mode == "str":
        keys = rng.sample(STR_KEYS, min(n, len(STR_KEYS)))
    elif mode == "int":
        keys = rng.sample([0, 1, 2, 10, -3, 2 ** 70, 7], max(1, min(n, 5)))
    elif mode == "intbool":
        keys = [True, 5] if rng.random() < 0.5 else [False, 1, -1]
    elif mode == "none":
        keys = [None]
    elif mode == "mixed":
        keys = ["a", 1] + (["b"] if rng.random() < 0.5 else [])
        rng.shuffle(keys)
    elif mode == "nonemixed":
        keys = rng.choice([[None, "a"], [None, 1], ["x", None, "y"]])
    elif mode == "npint":
        keys = rng.choice([[numpy.int64(1)], ["a", numpy.int64(1)], [numpy.bool_(True)], [1, numpy.int32(5)]])
    elif mode == "npstr":
        keys = [numpy.str_("ns"), "plain"]
    else:
        keys = rng.choice([[(1, 2)], ["a", (1, 2)], [b"by"]])
    return {k: gen_tree(rng, depth - 1, allow_unsafe) for k in keys}


def gen_tree(rng, depth, allow_unsafe):
    b = B()
    r = rng.random()
    if depth > 0 and r < 0.3:
        return gen_dict(rng, depth, allow_unsafe)
    if depth > 0 and r < 0.55:
        n = rng.choice([0, 1, 2, 3])
        xs = [gen_tree(rng, depth - 1, allow_unsafe) for _ in range(n)]
        return tuple(xs) if rng.random() < 0.4 else xs
    return b.gen_scalar(rng, allow_unsafe)


DTYPES = ("int8", "int16", "int32", "int64", "uint8", "uint16", "uint32", "uint64", "float16", "float32", "float64", "bool_",
          "U3", "complex128")


def gen_td_dtype(rng, allow_unsafe):
    """numpy arrays of every dtype / shape as test_distribution (to_dict calls .tolist())"""
    dt = rng.choice(DTYPES[:-1] if not allow_unsafe else DTYPES)
    shape = rng.choice([(0,), (1,), (5,), (2, 3), (0, 3), (2, 0), (), (2, 2, 2)])
    if dt in ("U3", "complex128") and shape == ():
        shape = (2,)            # a 0-d str_ / complex array (.tolist() = a str / complex) has no kind in the model: not generated
    n = int(numpy.prod(shape)) if shape else 1
    if dt == "U3":
        flat = [rng.choice(["", "a", "xyz", "µ"]) for _ in range(n)]
    elif dt == "bool_":
        flat = [rng.random() < 0.5 for _ in range(n)]
    elif dt == "complex128":
        flat = [complex(rng.randrange(3), rng.randrange(1, 3)) for _ in range(n)]
    elif dt.startswith("float"):
        flat = [rng.choice([0.0, -0.0, 1.5, -2.25, 0.1, math.nan, math.inf, -math.inf, 1e-8, 65504.0]) for _ in range(n)]
    else:
        info = numpy.iinfo(dt)
        flat = [rng.choice([info.min, info.max, 0, 1, rng.randrange(max(info.min, -100), min(info.max, 100))]) for _ in range(n)]
    with numpy.errstate(all="ignore"):
        return numpy.array(flat, dtype=dt).reshape(shape)


# ----------------------------------------------------------------------------- (i) results whose fields hold trees
def sec_result(run, drv, pend, rng, case, tmp):
    import csep
    import csep.models as M
    b = B()
    allow_unsafe = rng.random() < 0.45
    cls = rng.choice(["EvaluationResult", "CatalogNumberTestResult", "CatalogPseudolikelihoodTestResult",
                      "CatalogMagnitudeTestResult", "CatalogSpatialTestResult", "CalibrationTestResult"])
    vals = {f: gen_tree(rng, 2, allow_unsafe) for f in b.FIELDS}
    k = rng.random()
    if k < 0.55:
        vals["test_distribution"] = gen_td_dtype(rng, allow_unsafe)
    elif k < 0.7:
        vals["test_distribution"] = gen_dict(rng, 1, allow_unsafe)       # list(d) = its keys
    elif k < 0.9:
        v = gen_tree(rng, 2, allow_unsafe)
        vals["test_distribution"] = v if isinstance(v, (list, tuple, dict)) else [v]
    elif allow_unsafe:
        vals["test_distribution"] = rng.choice([None, 2.5, 3])
    else:
        vals["test_distribution"] = []
    res = getattr(M, cls)(**vals)
    td = vals["test_distribution"]
    run.count("tree-result:td=" + (f"ndarray:{td.dtype}:{td.ndim}d" if isinstance(td, numpy.ndarray) else type(td).__name__))
    has_dict = any(_has_dict(vals[f]) for f in b.FIELDS)
    run.case(case, ("tree-result", cls, tuple(b.kind_of(vals[f]) if not _has_dict(vals[f]) else "dict:" + encs(vals[f], td=(f == "test_distribution"))[:40]
                                                 for f in b.FIELDS)))
    safe = {f: is_safe(vals[f], td=(f == "test_distribution")) for f in b.FIELDS}
    # --- to_dict's handling of test_distribution
    try:
        with b.quiet():
            d = res.to_dict()
        tdl = encs(d["test_distribution"], canon=True) if isinstance(d, dict) and "test_distribution" in d else None
    except Exception as e:
        d, tdl = None, _werr(e)
    if tdl is None:
        run.count("result:to_dict-without-a-test_distribution-member(recorded; the round trip is judged below)")
    elif not (isinstance(td, dict) and any(key_tok(k).startswith("kx") for k in td)):      # list(d) of unhashable-for-json keys: no kind
        pend.append(("eq:c18_tdlist", dict(case, field="test_distribution"), drv.ask("c18_tdlist " + encs(td, td=True)), tdl))
    if d is None:
        return
    # --- the real file round trip
    path = os.path.join(tmp, "tr.json")
    try:
        with b.quiet():
            csep.write_json(res, path)
        werr = None
    except Exception as e:
        werr = _werr(e)
    if werr:
        impl = werr
        loaded = None
    else:
        try:
            loaded = csep.load_evaluation_result(path)
            impl = b.hexs(type(loaded).__name__) + " " + ";".join(encs(getattr(loaded, f), canon=True) for f in b.FIELDS)
        except Exception as e:
            loaded, impl = None, type(e).__name__
    pend.append(("eq:c18_result" if all(safe.values()) else "equ:c18_result", case, drv.ask("c18_result " + encs(d)), impl))
    # --- oracle: safe kinds only (the property's "equal" on the nine fields)
    if all(safe.values()):
        if loaded is None:
            run.oracle_failure(case, f"result with safe field kinds could not be written and loaded: {impl}")
        else:
            if type(loaded).__name__ != cls:
                run.oracle_failure(case, f"class {cls} loaded back as {type(loaded).__name__}")
            for f in b.FIELDS:
                got = py_norm(getattr(loaded, f), td=True)
                if f == "test_distribution":
                    if isinstance(td, (str, dict)):
                        continue          # not a numeric distribution: list(d) keeps the keys only (theorem)
                    try:
                        exp = py_norm(b.td_list(td))
                    except TypeError:     # None / plain scalar: the unchanged to_dict raises; the model comparison covers it
                        continue
                else:
                    exp = py_norm(vals[f])
                if not same(got, exp):
                    run.oracle_failure(dict(case, field=f), f"{cls}.{f}: wrote {vals[f]!r}, loaded {got!r}")
    if has_dict:
        run.count("tree-result-with-dict" + ("" if werr is None else ":TypeError"))


def _werr(e):
    """a write that raises: TypeError is the modelled `err`, anything else is reported by its class name"""
    return "err" if isinstance(e, TypeError) else type(e).__name__


def _has_dict(v):
    if isinstance(v, dict):
        return True
    if isinstance(v, (list, tuple)):
        return any(_has_dict(e) for e in v)
    return False


def sec_value(run, drv, pend, rng, case, tmp):
    """one value through FileSystem.save / load and through the model's encode / decode"""
    from csep.core.repositories import FileSystem
    b = B()
    v = gen_dict(rng, 3, rng.random() < 0.6)
    run.case(case, ("tree-value", encs(v)[:80]))
    path = os.path.join(tmp, "v.json")
    repo = FileSystem(url=path)
    try:
        with b.quiet():
            repo.save(v)
        tree = json.load(open(path))
        impl = encs(tree, canon=True)
    except Exception as e:
        impl = _werr(e)
    i = drv.ask("c18_tree " + encs(v))
    pend.append(("tree", case, i, (impl, is_safe(v))))
    run.count("tree-value:" + ("TypeError" if impl == "err" else "written"))
    if not impl[:1].isupper() and impl != "err" and is_safe(v) and not same(py_norm(v), tree):
        run.mismatch(dict(case, op="c18_tree"), f"safe value {v!r} loaded as {tree!r}", "tree_roundtrip_safe")


# ----------------------------------------------------------------------------- (ii) objects
class _Raw:
    """hands a prepared dictionary to write_json"""

    def __init__(self, d):
        self.d = d

    def to_dict(self):
        return self.d


def _via_file(cls, d, tmp):
    """write d with csep.write_json, load with csep.load_json(cls), return canonical encoding of to_dict() or error enum"""
    import csep
    b = B()
    path = os.path.join(tmp, "o.json")
    try:
        with b.quiet():
            csep.write_json(_Raw(d), path)
    except Exception as e:
        return _werr(e), None
    try:
        obj = csep.load_json(cls, path)
    except Exception as e:
        return type(e).__name__, None
    return encs(obj.to_dict(), canon=True), obj


def sec_evalcfg(run, drv, pend, rng, case, tmp):
    from csep.models import EvaluationConfiguration
    allow_unsafe = rng.random() < 0.3
    names = ["n-test", "s-test", "m-test", "l-test"]
    k = rng.random()
    if k < 0.55:
        evs = [dict(name=n, version=rng.choice(["1.0", 2, None, 1.5]), fnames=rng.choice([["a.json"], ("a", "b"), [], None, "f"]))
               for n in rng.sample(names, rng.randrange(0, 4))]
        if evs and rng.random() < 0.3:
            evs.append(dict(evs[0], version="dup"))          # two entries of one name: update_version updates both
    elif k < 0.85:
        evs = rng.choice([None, [], (), {}, 0, "", False, 0.0, numpy.int64(0)])
    else:
        evs = gen_tree(rng, 2, allow_unsafe)
    kw = dict(compute_time=rng.choice([1577836800000, None, numpy.int64(5), 1.5e12]), catalog_file=rng.choice(["cat.csv", None, ""]),
              forecast_file=rng.choice(["fore.dat", None]), n_cat=rng.choice([None, 10000, numpy.int32(7)]),
              eval_start_epoch=rng.choice([0, None, -5]), eval_end_epoch=rng.choice([1, None, 2 ** 40]),
              git_hash=rng.choice(["abc123", None]), evaluations=evs, forecast_name=gen_tree(rng, 1, allow_unsafe))
    if isinstance(evs, numpy.ndarray):
        kw["evaluations"] = None                              # `array or []` raises ValueError: not a serialisation matter
    try:
        cfg = EvaluationConfiguration(**copy.deepcopy(kw))
        d = cfg.to_dict()
    except Exception as e:
        run.mismatch(dict(case, op="EvaluationConfiguration()"), type(e).__name__, "constructed")
        return
    if rng.random() < 0.15:
        d = dict(d, evaluations=rng.choice([None, 0, "", {}, False, 0.0]))      # a hand-edited file: `or []` on the load side
    if rng.random() < 0.15:
        d = dict(d)
        del d[rng.choice(sorted(d))]                          # a damaged file: KeyError
        run.count("evalcfg-key-removed")
    run.case(case, ("evalcfg", encs(d)[:60]))
    impl, obj = _via_file(EvaluationConfiguration, d, tmp)
    pend.append(("eq:c18_evalcfg" if is_safe(d) else "equ:c18_evalcfg", case, drv.ask("c18_evalcfg " + encs(d)), impl))
    run.count("evalcfg:" + (impl if obj is None else "loaded"))
    if obj is None:
        return
    # getters and update_version on the LOADED object
    d2 = copy.deepcopy(obj.to_dict())
    nm = rng.choice(names)
    try:
        impl = encs(obj.get_evaluation_version(nm), canon=True) + " " + encs(obj.get_fnames(nm), canon=True)
    except Exception as e:
        impl = type(e).__name__
    i = drv.ask(f"c18_cfgget {encs(d2)} {B().hexs(nm)}")
    pend.append(("eq?:c18_cfgget", case, i, impl))
    ver, fn = rng.choice(["3.1", 4, None]), rng.choice([["x.json", "y.json"], [], None])
    try:
        obj.update_version(nm, ver, fn)
        impl = encs(obj.to_dict(), canon=True)
    except Exception as e:
        impl = type(e).__name__
    i = drv.ask(f"c18_cfgupd {encs(d2)} {B().hexs(nm)} {encs(ver)} {encs(fn)}")
    pend.append(("eq?:c18_cfgupd", case, i, impl))
    # … and the updated object survives another save/load
    impl2, obj2 = _via_file(EvaluationConfiguration, obj.to_dict(), tmp)
    if obj2 is not None and not same(py_norm(obj.to_dict()), obj2.to_dict()):
        run.mismatch(dict(case, op="evalcfg-resave"), obj.to_dict(), obj2.to_dict())


EPOCH = datetime.datetime(1970, 1, 1, tzinfo=datetime.timezone.utc)


def sec_event(run, drv, pend, rng, case, tmp):
    import csep
    from csep.models import Event
    b = B()
    us = rng.choice([0, 1, 999, 1000, 1500, -1, -1000, -1001, 1577836800123456, 1577836800123000,
                     rng.randrange(-2 * 10 ** 15, 4 * 10 ** 15), 1000 * rng.randrange(-10 ** 12, 3 * 10 ** 12)])
    t = None if rng.random() < 0.15 else EPOCH + datetime.timedelta(microseconds=us)
    if t is not None and rng.random() < 0.5:
        t = t.replace(tzinfo=None)                                   # naive datetimes are taken as UTC
    ev = Event(id=rng.choice(["ev1", 7, None, numpy.int64(3)]), magnitude=rng.choice([5.5, numpy.float64(4.95), None, math.nan]),
               latitude=rng.choice([33.5, -90.0, numpy.float32(1.5)]), longitude=rng.choice([-117.25, 180.0, 0]), time=t)
    run.case(case, ("event", us % 1000 == 0, t is None))
    try:
        d = ev.to_dict()
    except Exception as e:
        run.mismatch(dict(case, op="Event.to_dict"), type(e).__name__, "a dictionary")
        return
    # to_dict stores whole milliseconds, rounded towards minus infinity (model: microsToEpochMs)
    exp_ms = None if t is None else us // 1000
    if d["time"] != exp_ms or (t is not None and type(d["time"]) is not int):
        run.mismatch(dict(case, op="Event.to_dict"), d["time"], exp_ms)
    path = os.path.join(tmp, "e.json")
    try:
        with b.quiet():
            csep.write_json(ev, path)
        ev2 = csep.load_json(Event, path)
        impl = encs(ev2.to_dict(), canon=True)
    except Exception as e:
        ev2, impl = None, type(e).__name__
    pend.append(("eq:c18_event", case, drv.ask("c18_event " + encs(d)), impl))
    if ev2 is None:
        return
    # the loaded time is exactly the stored millisecond (C15's conversion, a hypothesis of the model)
    if t is not None:
        want = EPOCH + datetime.timedelta(milliseconds=exp_ms)
        if ev2.time != want:
            run.mismatch(dict(case, op="Event.from_dict.time"), str(ev2.time), str(want))
        run.count("event-time-exact" if us % 1000 == 0 else "event-time-truncated")
        if (ev2.time == t.replace(tzinfo=datetime.timezone.utc)) != (us % 1000 == 0):
            run.mismatch(dict(case, op="event_time_exact_iff"), str(ev2.time), str(t))
    elif ev2.time is not None:
        run.mismatch(dict(case, op="Event.from_dict.time"), str(ev2.time), "None")


def sec_repo(run, drv, pend, rng, case, tmp):
    import csep
    from csep.core.repositories import FileSystem, Repository
    b = B()
    url = os.path.join(tmp, rng.choice(["store.json", "a b.json", "µ.json"]))
    name = rng.choice(["filesystem", "archive", "", None, 5, numpy.int64(2), ("a", 1)])
    fs = FileSystem(url=url, name=name)
    d = fs.to_dict()
    run.case(case, ("repo", repr(name)))
    which = rng.random()
    if which < 0.25:
        d = dict(d, **{rng.choice(["nme", "path", "Url"]): "x"})     # unexpected key: cls(**adict) raises TypeError
    elif which < 0.4:
        drop = rng.choice(["name", "url"])
        d = {k: v for k, v in d.items() if k != drop}
    impl, obj = _via_file(FileSystem, d, tmp)
    pend.append(("eq:c18_repo", case, drv.ask("c18_repo " + encs(d)), impl))
    run.count("repo:" + (impl if obj is None else "loaded"))
    # Repository.__eq__: dictionary equality; anything without to_dict compares unequal (no exception)
    same_again = FileSystem(url=url, name=name)
    checks = [(fs == same_again, True), (fs == FileSystem(url=url + "x", name=name), False), (fs == 5, False),
              (fs == None, False), (fs == {"name": name, "url": url}, False)]        # noqa: E711
    if obj is not None and which >= 0.4 and type(name) in (str, type(None), int):
        checks.append((obj == fs, True))                      # a saved and loaded repository equals the original
    for got, want in checks:
        if got is not want:
            run.mismatch(dict(case, op="Repository.__eq__"), got, want)
    # save(backup=True): the previous file is copied next to it before it is overwritten; save returns True
    store = FileSystem(url=os.path.join(tmp, f"bk{rng.randrange(10 ** 9)}.json"))
    first, second = {"v": 1, "x": [1.5, None]}, {"v": 2}
    try:
        with b.quiet():
            ok1 = store.save(first, backup=True)            # no file yet: nothing to back up
            ok2 = store.save(second, backup=True)
    except Exception as e:
        run.mismatch(dict(case, op="FileSystem.save(backup=True)"), type(e).__name__, "saved")
        return
    stem = os.path.splitext(os.path.basename(store.url))[0]
    backups = [f for f in os.listdir(tmp) if f.startswith(stem + "_backup_")]
    cur = json.load(open(store.url))
    if ok1 is not True or ok2 is not True or cur != second or len(backups) != 1 or \
            json.load(open(os.path.join(tmp, backups[0]))) != first:
        run.mismatch(dict(case, op="FileSystem.save(backup=True)"), dict(ok=[ok1, ok2], current=cur, backups=backups),
                     "current file = second data, exactly one backup holding the first data")
    for f in backups:
        os.remove(os.path.join(tmp, f))
    # load of a missing file: IOError
    try:
        FileSystem(url=os.path.join(tmp, "no-such-file.json")).load(FileSystem)
        got = "loaded"
    except IOError:
        got = "IOError"
    except Exception as e:
        got = type(e).__name__
    if got != "IOError":
        run.mismatch(dict(case, op="FileSystem.load(missing)"), got, "IOError")
    # save to an unwritable location: IOError
    try:
        with b.quiet():
            FileSystem(url=os.path.join(tmp, "no-such-dir", "x.json")).save({"a": 1})
        got = "saved"
    except IOError:
        got = "IOError"
    except Exception as e:
        got = type(e).__name__
    if got != "IOError":
        run.mismatch(dict(case, op="FileSystem.save(unwritable)"), got, "IOError")


# ----------------------------------------------------------------------------- (iii) region dictionaries
def region_summary(x):
    b = B()
    nm = "N" if x.name is None else b.hexs(str(x.name)) + "."
    os_ = ",".join(f"{b.f64tok(a)}:{b.f64tok(c)}" for a, c in x.origins().tolist()) or "-"
    if x.magnitudes is None:
        ms = "N"
    else:
        ms = ",".join(b.f64tok(m) for m in numpy.asarray(x.magnitudes, dtype=float).tolist()) or "-"
    return f"ok {nm} {b.f64tok(float(x.dh))} {os_} {ms}"


DAMAGES = ("none", "none", "del-name", "null-name", "del-dh", "null-dh", "del-polygons", "null-polygons", "del-class_id",
           "class_id-other", "no-lon", "no-lat", "entry-list", "entry-none", "entry-str", "polygons-empty", "polygons-int",
           "polygons-float", "polygons-bool", "mags", "mags-empty", "extra-key", "not-dict-list", "not-dict-none",
           "not-dict-str", "not-dict-int", "both-missing")


def damage(rng, d, kind):
    d = copy.deepcopy(d)
    j = rng.randrange(len(d["polygons"]))
    if kind.startswith("del-"):
        del d[kind[4:]]
    elif kind.startswith("null-"):
        d[kind[5:]] = None
    elif kind == "class_id-other":
        d["class_id"] = "QuadtreeGrid2D"
    elif kind == "no-lon":
        del d["polygons"][j]["lon"]
    elif kind == "no-lat":
        del d["polygons"][j]["lat"]
    elif kind == "entry-list":
        d["polygons"][j] = [d["polygons"][j]["lon"], d["polygons"][j]["lat"]]
    elif kind == "entry-none":
        d["polygons"][j] = None
    elif kind == "entry-str":
        d["polygons"][j] = "lon"
    elif kind == "polygons-empty":
        d["polygons"] = []
    elif kind == "polygons-int":
        d["polygons"] = 5
    elif kind == "polygons-float":
        d["polygons"] = 2.5
    elif kind == "polygons-bool":
        d["polygons"] = True
    elif kind == "mags":
        d["magnitudes"] = [4.0 + 0.1 * i for i in range(rng.randrange(1, 6))]
    elif kind == "mags-empty":
        d["magnitudes"] = []
    elif kind == "extra-key":
        d["bbox"] = [1.0, 2.0]
    elif kind == "not-dict-list":
        d = [d]
    elif kind == "not-dict-none":
        d = None
    elif kind == "not-dict-str":
        d = "region"
    elif kind == "not-dict-int":
        d = 3
    elif kind == "both-missing":
        del d["polygons"], d["dh"]
    return d


ERRS = Exception


def sec_regdict(run, drv, pend, rng, case, tmp):
    import csep
    from csep.core.regions import CartesianGrid2D
    b = B()
    origins, dh = b.gen_lattice(rng, dyadic=rng.random() < 0.4)
    name = rng.choice(["lattice", "", "µ-region", None, "None"])
    mags = rng.choice([None, numpy.array([4.0, 4.5, 5.0]), numpy.array([5.95]), [3, 4]])
    oarr = numpy.array(origins, dtype=float)
    try:
        r = CartesianGrid2D.from_origins(oarr, dh=dh, magnitudes=mags, name=name)
    except Exception as e:
        run.count(f"region-unbuildable:{type(e).__name__}")
        return
    d = r.to_dict()
    kind = rng.choice(DAMAGES)
    run.case(case, ("regdict", kind, name, mags is None, len(origins)))
    run.count("regdict:" + kind)
    # to_dict of the model = the real dictionary
    nm = "N" if name is None else b.hexs(name) + "."
    ostr = ",".join(f"{b.f64tok(a)}:{b.f64tok(c)}" for a, c in origins)
    pend.append(("eq:c18_regto", case, drv.ask(f"c18_regto {nm} {b.f64tok(dh)} {ostr}"), encs(d, canon=True)))
    try:
        dd = damage(rng, d, kind)
    except (KeyError, TypeError, IndexError, AttributeError, ValueError):
        # what to_dict wrote does not have the members this damage edits (a member renamed / dropped / restructured in to_dict):
        # the damage is skipped; the PROPERTY is judged on the undamaged dictionary below (if from_dict cannot rebuild the region
        # from what to_dict wrote, that is an oracle failure with this region as replay)
        run.count("regdict:dictionary-shape-differs(damage skipped, property judged on the undamaged dictionary)")
        kind, dd = "none", copy.deepcopy(d)
    through_file = isinstance(dd, dict) and rng.random() < 0.5
    try:
        if through_file:
            path = os.path.join(tmp, "rd.json")
            with b.quiet():
                csep.write_json(_Raw(dd), path)
            x = csep.load_json(CartesianGrid2D, path)
        else:
            x = CartesianGrid2D.from_dict(copy.deepcopy(dd))
        impl = region_summary(x)
    except ERRS as e:
        x, impl = None, type(e).__name__
        if kind == "none":
            run.oracle_failure(dict(case, damage=kind), f"the dictionary to_dict() wrote cannot be rebuilt into a region: {type(e).__name__}: {e}")
    try:
        pend.append(("eq:c18_regdict", dict(case, damage=kind), drv.ask("c18_regdict " + encs(dd)), impl))
    except Exception:
        run.count("regdict:dictionary-not-encodable-for-the-model(recorded)")
    # the property on an undamaged dictionary of a region WITH magnitudes bound: same index for every probe
    if x is not None and kind in ("none", "mags", "mags-empty", "extra-key", "del-class_id", "class_id-other", "del-name",
                                  "null-name"):
        probes = b.probes_for(rng, origins, dh, False)
        a = [b.locate(r, p) for p in probes]
        c = [b.locate(x, p) for p in probes]
        if a != c:
            j = [i for i in range(len(a)) if a[i] != c[i]][0]
            run.oracle_failure(dict(case, probe=[float(probes[j][0]).hex(), float(probes[j][1]).hex()]),
                               f"region (magnitudes bound: {mags is not None}) point {probes[j]!r}: original index {a[j]}, "
                               f"rebuilt index {c[j]}")
        if kind == "none" and mags is not None and x.magnitudes is not None:
            run.count("regdict:magnitudes-survived?!")
    # history: the caller edits a dictionary obtained EARLIER (a twin grid shifted by dh/2, cells reversed); the region is
    # untouched, so its dictionary form taken afterwards must still rebuild a region with the original indices
    probes = b.probes_for(rng, origins, dh, False)
    a = [b.locate(r, p) for p in probes]
    try:
        earlier = r.to_dict()
        # edit whatever the dictionary holds (its members may be named / shaped differently after a rewrite of to_dict)
        for v_ in (list(earlier.values()) if isinstance(earlier, dict) else []):
            if isinstance(v_, list):
                for p in v_:
                    if isinstance(p, dict):
                        for kk in list(p):
                            if isinstance(p[kk], float):
                                p[kk] += dh / 2
                v_.reverse()
        if through_file:
            path = os.path.join(tmp, "rd2.json")
            with b.quiet():
                csep.write_json(r, path)
            x2 = csep.load_json(CartesianGrid2D, path)
        else:
            x2 = CartesianGrid2D.from_dict(r.to_dict())
        c2 = [b.locate(x2, p) for p in probes]
    except Exception as e:
        run.oracle_failure(dict(case, history="edit-earlier-dict"),
                           f"region could not be rebuilt after a previously obtained dictionary was edited: {type(e).__name__}: {e}")
        return
    if a != c2:
        j = [i for i in range(len(a)) if a[i] != c2[i]][0]
        run.oracle_failure(dict(case, history="edit-earlier-dict", probe=[float(probes[j][0]).hex(), float(probes[j][1]).hex()]),
                           f"after the caller edited a dictionary returned by an earlier to_dict(): point {probes[j]!r} original "
                           f"index {a[j]}, index in the region rebuilt from to_dict() {c2[j]}")


def sec_quadtree(run, drv, pend, rng, case, tmp):
    import csep
    from csep.core.regions import CartesianGrid2D, QuadtreeGrid2D
    b = B()
    k = rng.random()
    mags = rng.choice([None, numpy.array([5.0, 6.0])])
    with b.quiet():
        if k < 0.5:
            q = QuadtreeGrid2D.from_single_resolution(rng.choice([1, 2, 3]), magnitudes=mags)
        else:
            keys = ["0", "1", "2", "3"]
            for _ in range(rng.randrange(1, 5)):                      # split random leaves
                kk = keys.pop(rng.randrange(len(keys)))
                keys += [kk + c for c in "0123"]
            q = QuadtreeGrid2D.from_quadkeys(sorted(keys), magnitudes=mags)
    if rng.random() < 0.5:
        q.name = rng.choice(["qt", "", "µ"])
    d = q.to_dict()
    run.case(case, ("quadtree", len(d.get("polygons", [])), q.name))
    run.count("quadtree-dict")
    ok = sorted(d) == ["name", "polygons"] and d["name"] == str(q.name) and type(d["name"]) is str
    pts = numpy.array([[p["lon"], p["lat"]] for p in d["polygons"]]) if ok else None
    if not ok or pts.shape != q.bounds[:, :2].shape or not (pts == q.bounds[:, :2]).all() or \
            not all(type(p["lon"]) is float and type(p["lat"]) is float and sorted(p) == ["lat", "lon"] for p in d["polygons"]):
        run.mismatch(dict(case, op="QuadtreeGrid2D.to_dict"), str(d)[:300], "{'name': str(name), 'polygons': origins = bounds[:, :2]}")
        return
    path = os.path.join(tmp, "q.json")
    try:
        with b.quiet():
            csep.write_json(q, path)
        tree = json.load(open(path))
    except Exception as e:
        run.mismatch(dict(case, op="quadtree-dict-file"), type(e).__name__, "written")
        return
    if tree != d:
        run.mismatch(dict(case, op="quadtree-dict-file"), "file differs from to_dict()", "quadtree_dict_file_roundtrip")
    pend.append(("tree", case, drv.ask("c18_tree " + encs(d)), (encs(tree, canon=True), True)))
    try:
        csep.load_json(CartesianGrid2D, path)
        impl = "loaded"
    except ERRS as e:
        impl = type(e).__name__
    pend.append(("eq:c18_regdict", case, drv.ask("c18_regdict " + encs(d)), impl))


RUNNERS = dict(result=sec_result, value=sec_value, evalcfg=sec_evalcfg, event=sec_event, repo=sec_repo, regdict=sec_regdict,
               quadtree=sec_quadtree)


# records next to the property (EvaluationConfiguration, Event, FileSystem.to_dict/from_dict, QuadtreeGrid2D.to_dict): the property
# text does not mention them. They stay modelled and compared on every run, but a difference is RECORDED in the histogram
# (`outside-property:<section>:…`), never reported: a rewrite of these classes is not a change of C18's behaviour.
OUTSIDE_PROPERTY = ("evalcfg", "event", "repo", "quadtree")


class _Recorded:
    """proxy of the run object for sections outside the property: differences are counted, not reported"""

    def __init__(self, run, section):
        self._run, self._section = run, section

    def __getattr__(self, name):
        return getattr(self._run, name)

    def mismatch(self, case, impl, model):
        self._run.count(f"outside-property:{self._section}:model-differs(recorded, not judged)")

    def oracle_failure(self, case, detail, signature=None):
        self._run.count(f"outside-property:{self._section}:expectation-differs(recorded, not judged)")


def run_case(run, drv, pend, section, sub_seed, tmp):
    rng = random.Random(sub_seed)
    case = dict(mode="tree", section=section, sub_seed=sub_seed)
    RUNNERS[section](_Recorded(run, section) if section in OUTSIDE_PROPERTY else run, drv, pend, rng, case, tmp)


def run_all(run, drv, pend, rng, thorough, tmp):
    plan = [("result", 1500 if thorough else 220), ("value", 1500 if thorough else 250), ("evalcfg", 600 if thorough else 90),
            ("event", 400 if thorough else 60), ("repo", 150 if thorough else 25), ("regdict", 1200 if thorough else 160),
            ("quadtree", 40 if thorough else 6)]
    for section, n in plan:
        for _ in range(n):
            run_case(run, drv, pend, section, rng.randrange(2 ** 31), tmp)


def flush_one(run, what, case, o, impl):
    """compare one queued driver answer; returns True when `what` was one of this module's"""
    if isinstance(case, dict) and case.get("section") in OUTSIDE_PROPERTY:
        run = _Recorded(run, case["section"])
    if what == "tree":
        loaded, safe = impl
        if (loaded == "err") != (o == "err") and not safe and not loaded[:1].isupper():
            # whether an UNSAFE value (mixed / non-str keys ...) can be written at all depends on json.dump options such as
            # sort_keys; the property only speaks about values that survive: recorded, not judged
            run.count("tree-value:writability-differs(unsafe value, not judged)")
            return True
        if loaded == "err" or loaded[:1].isupper():
            if o != loaded:
                run.mismatch(dict(case, op="c18_tree"), loaded, o)
            return True
        parts = o.split(" ")
        if len(parts) == 3 and (parts[2] == "1") == safe and not safe and parts[1] != loaded:
            # an UNSAFE value (an ndarray / object nested inside, non-str keys): HOW the writer renders the part json cannot
            # encode (its str() today; nested lists would be as good) is incidental - the property speaks about values that
            # survive: recorded, not judged. Model and harness still have to agree that the value is unsafe.
            run.count("tree-value:written-form-of-unsafe-value-differs(not judged)")
            return True
        if len(parts) != 3 or parts[1] != loaded or (parts[2] == "1") != safe or parts[0].replace("N", "n") != parts[1]:
            run.mismatch(dict(case, op="c18_tree"), [loaded, safe], o)
        return True
    if what.startswith("equ:"):
        # a result holding an UNSAFE field: whether it can be written at all (mixed / non-str dict keys) depends on json.dump
        # options such as sort_keys and is not part of the property: recorded, not judged
        if (o == "err") != (impl == "err") and not impl[:1].isupper():
            run.count("tree-object:writability-differs(unsafe field, not judged)")
            return True
        if o != impl and o != "err" and not o[:1].isupper() and impl != "err" and not impl[:1].isupper():
            # both wrote and loaded the object; it holds an UNSAFE field: the written form of that field is incidental
            run.count("tree-object:written-form-of-unsafe-field-differs(not judged)")
            return True
        what = "eq:" + what[4:]
    if what.startswith("eq:") or what.startswith("eq?:"):
        if what.startswith("eq?:") and o == "unmodelled":
            run.count("unmodelled:" + what[4:])
            return True
        if o != impl and what == "eq:c18_regto":
            # the NAMES / layout of the members to_dict writes are a file format, not the property (which asks that the region
            # rebuilt from the dictionary indexes identically - judged by the oracle on every region): recorded
            run.count("regto:dictionary-form-differs-from-the-model(recorded)")
        elif o != impl:
            if o == "err" or o == "none" or o[:1].isupper():
                # the MODEL refuses this input (damaged dictionary, malformed text, unknown stored class, scalar distribution …):
                # it is outside what the property quantifies over; which error the code raises, or whether a more forgiving
                # code accepts it, is incidental behaviour: recorded, not judged
                run.count(f"model-refuses-input:{what.split(':', 1)[1]}:implementation-differs(not judged)")
            else:
                run.mismatch(dict(case, op=what.split(":", 1)[1]), impl, o)
        return True
    return False
