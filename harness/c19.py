"""C19 — catalog readers decode every well-formed record of each supported text format.

Files of 1..60 records are generated per format (CSEP CSV, ZMAP, JMA CSV, INGV HORUS, NDK) from random event lists,
loaded through csep.load_catalog(fname, type=...), and compared field by field (a) with the generating events (direct
oracle, exact integer/Fraction arithmetic, Python's datetime as the calendar) and (b) with Model/Readers.lean run on the
parsed tokens of the same records (correspondence).  The type -> (class, reader) table and the ZMAP/HORUS column maps are
re-extracted from the source with `ast` on every run and compared with the model's tables."""
import ast
import contextlib
import datetime
import hashlib
import json
import math
import os
import shutil
import tempfile
import time
from fractions import Fraction

from .core import Driver, frac, REPO

LEVEL_TEXT = ("Proof of the assembly logic of the five text readers on parsed tokens: per format, a list of well-formed "
              "records decodes to one event per record, in order, with the encoded coordinates/depth/magnitude and the "
              "encoded instant in UTC at the format's resolution (CSEP: floor to ms; JMA: nearest ms after subtracting the "
              "UTC offset; ZMAP, HORUS, NDK: whole seconds); seconds written as 60 equal the next minute's :00 across "
              "hour/day/month/year ends (calendar lemma proved for all dates); every accepted type string has a reader. "
              "Since wave 4 the step from the CHARACTERS of a file to those tokens is a Lean model too (Model/ReaderText: "
              "universal newlines, csv/whitespace splitting, NDK fixed columns, decimal numerals -> binary64, strptime "
              "matching, the skip rules of ndk._read_lines) with theorems for files of any length (line splitting LF/CRLF/"
              "no final newline, groups of five, column layout of the hypocenter line, zero-padded fields, and the NDK "
              "text model refining the token model), and every generated file is compared with it byte-for-byte-in, "
              "event-for-event-out. Round 5: csv quoting of the CSEP CSV reader is inside the text model (the csv reader's state "
              "machine, proved inverse to the csv writer), field splitting is proved to return the written fields (split_ws_join, "
              "split_on_join), and all five formats have a characters-to-events theorem for files of any length (LF / CRLF): "
              "csep_/zmap_/horus_/jma_/ndk_file_one_event_per_record. The theorem still carries less here than the correspondence: the tie to the code is the "
              "file-level differential test against csep.load_catalog on generated files of every format.")
LEVEL_NOTE = ("the text model is hand-written and tied by correspondence (c19_text on every file; c19_float validates "
              "float(text) = fl64(exact decimal value) on thousands of numerals per run); csv quoting of the CSEP CSV reader is "
              "modelled since round 5 (csv.reader's state machine, Model/PersistText, proved inverse to the csv writer); not "
              "modelled: csv quoting in JMA files (';' dialect), '#' "
              "comments, the 'data used' regex of NDK line 2, case-insensitive strptime literals, %z with seconds; NDK "
              "magnitude 2/3*(log10(M0)-9.1) is in the model's real layer since round 6 (Model/NdkMagnitude: Float in the "
              "driver, compared to 1e-9; at R: strictly increasing, injective, +2/3 per decade of the exponent); JMA: the float path "
              "round(1000.*ts) is transcribed in Soft64 and proved to return the written millisecond for ms-resolution times "
              "with |t| < 2^43 ms; for microsecond-resolution times the theorems use exact nearest-ms rounding and the harness "
              "checks on every record that the float path differs from it only on exact half-ms ties (either neighbour allowed).")
DESIGN_REF = "DESIGN.md §4 C19"
TECHNIQUE = "exact-layer token model + per-record theorems + calendar lemma by omega; file-level differential correspondence"

THEOREMS = ["Readers.decode_encode_csep", "Readers.decode_encode_zmap", "Readers.decode_encode_horus",
            "Readers.decode_encode_jma", "Readers.decode_encode_ndk", "Readers.sec60_carry_horus",
            "Readers.sec60_carry_ndk", "Readers.offset_to_utc", "Readers.dispatch_total",
            "Readers.daysFromCivil_nextDay", "Readers.nextMinute_spec", "Readers.decode_horus_carries",
            "Readers.decode_encode_horus_denorm", "Readers.decode_encode_ndk_sec60", "Readers.daysFromCivil_strictMono",
            "Readers.civil_roundtrip", "Readers.jma_float_path_exact", "Readers.decode_encode_jma_float",
            "Readers.decode_zmap_repeated", "Readers.decode_zmap_keeps_duplicates", "Readers.decode_csep_repeated",
            "Readers.explicit_loader_wins", "Readers.default_loader_is_registered",
            # text level (Properties/C19_Text.lean): characters of the file -> tokens
            "ReaderText.text_lines_lf", "ReaderText.text_lines_crlf", "ReaderText.text_lines_no_final_newline",
            "ReaderText.ndk_groups_of_five", "ReaderText.ndk_line1_columns", "ReaderText.ndk_line1_layout",
            "ReaderText.digits_value", "ReaderText.directive_on_padded_field", "ReaderText.csep_time_text",
            "ReaderText.ndk_file_refines_tokens", "ReaderText.ndk_file_one_event_per_record",
            # round 5: csv quoting inside the text model of csep_ascii
            "ReaderText.csep_file_refines_tokens", "ReaderText.csep_file_one_event_per_record",
            # Properties/C19_TextFiles.lean: field splitting and the files of the other formats
            "ReaderText.split_ws_join", "ReaderText.split_on_join", "ReaderText.zmap_file_refines_tokens",
            "ReaderText.zmap_file_one_event_per_record", "ReaderText.numericTable_of_fields",
            "ReaderText.horus_file_refines_tokens", "ReaderText.horus_file_one_event_per_record",
            "ReaderText.jma_file_refines_tokens", "ReaderText.jma_file_one_event_per_record",
            # round 6 (Properties/C19_Ndk.lean): the NDK loop with skipped records, the moment magnitude
            "ReaderText.ndk_file_loop", "ReaderText.ndk_skipped_records_leave_no_trace", "ReaderText.mwOf_real",
            "ReaderText.mw_strict_mono", "ReaderText.mw_injective", "ReaderText.mw_decade", "ReaderText.mw_reference",
            "ReaderText.ndk_file_mw_one_event_per_record"]
TRUSTED = ["Lean 4.33 kernel", "axioms: propext, Classical.choice, Quot.sound at most",
           "tokenisation (csv.reader, numpy.loadtxt, numpy.genfromtxt incl. '2017.0000000000' -> int32, NDK fixed-column "
           "slices, float(), int(), datetime.strptime field matching) is MODELLED in Model/ReaderText.lean since wave 4 and "
           "compared with the code on the bytes of every generated file; trusted remains that this hand-written text model "
           "is what those library routines do outside the generated input classes (quoting, comments, locale, Unicode digits)",
           "Python datetime/timedelta calendar arithmetic = proleptic Gregorian day count (validated against the Lean "
           "daysFromCivil on every generated date and on a sweep of days 1900-2200)",
           "float subtraction `second - 60.` exact; `round(1000. * timestamp())` equals exact nearest-ms away from ties (checked "
           "on every generated JMA record against the Soft64 float-path model)",
           "NDK moment magnitude formula (math.log10) — supplied to the model as a token",
           "harness/c19.py generators, file writers and comparison; ast extraction of the tables; driver parsing"]
RULE = ("per format, files of 1..60 records from random event lists: lon [-180,180], lat [-90,90], depth, magnitude; instants "
        "1900-2200 with ~40% boundary-directed (leap days incl. 2000-02-29, Feb 28 of 1900/2100, month/year ends, 23:59:59, "
        "00:00:00), fractional seconds of 0..6 digits; HORUS seconds/minutes/hours written denormalised (60..119 s, minute 60, "
        "hour 24) across minute/hour/day/month/year ends, real 20.10f layout and compact layout, optional trailing columns; "
        "NDK ':59:60.0'; JMA offsets -12:00..+14:00 in +HHMM/+HH:MM/Z notation, 8% of 6-digit times exact half-ms ties; ZMAP 10..14 numeric columns, integer/float/decimal "
        "year; CSEP header on/off, blank catalog_id/event_id. Every format: 30% of the files with >= 2 records repeat records "
        "that agree in every column (adjacent, distant, several, a file of n copies of one record; NDK: whole five-line "
        "blocks) - one event per record, nothing de-duplicated; numeric fields as repr incl. exponent notation (values "
        "within 1e-4 of zero) and, where the format's tokeniser is float()/loadtxt/genfromtxt (CSEP, ZMAP, JMA, compact "
        "HORUS), the other legal spellings ('5.', '.5', '+5.0', '1E-05', leading/trailing zeros, '%.17e'); every file is "
        "loaded with the process's local time zone cycling through UTC, Asia/Tokyo, America/Los_Angeles, Europe/London "
        "and POSIX TZ strings (TZ + time.tzset, restored afterwards). A case is non-trivial when the file holds a "
        "boundary record (leap day, roll-over, second 60, non-zero offset, sub-resolution fraction) or a repeated record; "
        "distinct by sha1 of the file text and the zone. Wave 4: every 7th random file has CRLF line ends; NDK lines 2-5 "
        "vary (event-name length, order of the B/S/M data types, CMT: 0/1/2, TRIHD/BOXHD, FREE/FIX/BDY, Q-/S-/O- stamps, "
        "exponents 7..35, three scalar-moment layouts); every file also goes as bytes through the text-level model. "
        "Wave 5: every file is read through one of 12 (NDK: 18) entry points chosen from rng - load_catalog(type=), "
        "load_catalog(loader=reader) with type at its default / another format's / the matching one, a user-written loader, "
        "CSEPCatalog.load_catalog(loader=), the reader function itself, format='csep', a pathlib path, pass-through "
        "kwargs, apply_filters with a vacuous filter (list and str), NDK from StringIO/BytesIO/open files/str/bytes data - "
        "each once per format first; the epoch-0 instant and its neighbours (4%), zero-valued coordinates/depth/magnitude "
        "(4% per field) and an all-zero record per format; JMA offsets incl. -09:30, -04:30, -00:30, -00:45, +12:45, "
        "+-00:01; two (thorough: five) files with 65537..66236 records; 12 (150) scripted SESSIONS on 2-4 shared paths "
        "(write / load via random entry point / overwrite with same-length content / caller edits a returned catalog); "
        "public accessors (event_count, get_longitudes ... get_datetimes) must agree with the stored array. Round 5: "
        "CSEP CSV event ids that need csv quoting (delimiter, quote character, blanks, the word 'lon') and files written "
        "with QUOTE_ALL / QUOTE_NONNUMERIC policies (every cell, or the text cells, in quotes). Resolution band: a record "
        "written with digits below the format's resolution (JMA / CSEP below the millisecond, ZMAP / HORUS / NDK a fraction of "
        "a second) may load as any instant between the reference reader's answer and the written instant; a file of more "
        "than 2^16 records in four formats per quick run. Round 7: a quarter of the files under numpy.errstate(divide, invalid, "
        "over = raise) + decimal prec 2..6; ZMAP optional error columns holding NaN; every sixth file after rejected calls "
        "(a non-catalog file through the same entry point, an unknown type); loaders that are callable objects / partials; "
        "user subclass overriding accessors with __len__ / __bool__")

EPOCH = datetime.datetime(1970, 1, 1)
FORMATS = ("csep-csv", "zmap", "jma-csv", "ingv_horus", "ndk")


# ---- the process's local time zone must not matter (the formats state their own zone: UTC, or an explicit offset)
ZONES = [None, "Asia/Tokyo", "America/Los_Angeles", None, "Europe/London", "JST-9", "PST8PDT,M3.2.0,M11.1.0",
         "NST3:30NDT,M3.2.0,M11.1.0", "Pacific/Kiritimati", "America/St_Johns", "Australia/Lord_Howe"]
_ZONE_OK = {}


@contextlib.contextmanager
def local_zone(zone):
    """run the body with the process's local time zone set to `zone` (None = leave as is); always restored"""
    if zone is None:
        yield
        return
    old = os.environ.get("TZ")
    try:
        os.environ["TZ"] = zone
        time.tzset()
        if zone not in _ZONE_OK:   # a zone name unknown to the C library silently means UTC
            _ZONE_OK[zone] = any(time.localtime(t).tm_gmtoff != 0 for t in (0, 15552000, 1600000000, 1610000000))
        yield
    finally:
        if old is None:
            os.environ.pop("TZ", None)
        else:
            os.environ["TZ"] = old
        time.tzset()


# ----------------------------------------------------------------------------- generators
def _spell(rng, x, p_repr=0.6):
    """a text that float() (and numpy's text readers) read as exactly the double x: repr or another legal spelling"""
    x = float(x)
    r = repr(x)
    if rng.random() < p_repr:
        return r
    plain = "e" not in r
    neg = r.startswith("-")
    body = r[1:] if neg else r
    sign = "-" if neg else ""
    opts = ["%.17e" % x, ("%.17e" % x).upper()]
    if not plain:
        m, e = r.split("e")
        opts += [r.upper(), r.replace("e-0", "e-").replace("e+", "e"), m + "e" + ("%+04d" % int(e))]   # 4E-05 4e-5 4e-005
    if not neg:
        opts.append("+" + r)
    if plain:
        opts += [sign + "00" + body, sign + "0" + body, r + "0", r + "000"]
        if body.endswith(".0"):
            opts += [r[:-1], r[:-2], r[:-2] + "e0", r[:-2] + "E+00"]   # 5.  5  5e0  5E+00
        if body.startswith("0.") and len(body) > 2:
            opts += [sign + body[1:], ("-" if neg else "+") + body[1:]]   # .5  +.5
    t = rng.choice(opts)
    if float(t) != x:
        raise RuntimeError(f"spelling {t!r} does not read as {x!r}")
    return t


def _repeat(rng, recs):
    """30% of the files with >= 2 records: some records occur again, identical in every column"""
    n = len(recs)
    if n < 2 or rng.random() >= 0.3:
        return recs
    kind = rng.choice(["adjacent", "distant", "many", "all"])
    if kind == "all":
        return [dict(recs[0], repeated=True) for _ in range(n)]
    for _ in range(1 if kind != "many" else rng.randint(2, max(2, n // 2))):
        i = rng.randrange(n)
        j = (i + 1) % n if kind == "adjacent" else rng.randrange(n)
        if i != j:
            recs[i] = dict(recs[i], repeated=True)
            recs[j] = dict(recs[i])
    return recs


def _coord(rng, lo, hi, decimals=None):
    k = rng.random()
    if k > 0.96 and lo <= 0 <= hi:
        return 0.0          # zero-valued field (Greenwich / equator / surface / magnitude 0)
    if k < 0.1 and (decimals is None or decimals >= 5):
        # within 1e-4 of zero (Greenwich meridian / equator, shallow depth): repr is in exponent notation
        x = rng.uniform(1.0, 9.999) * 10.0 ** -rng.randint(5, 12 if decimals is None else decimals)
        x = -x if lo < 0 and rng.random() < 0.5 else x
        return x if decimals is None else round(x, decimals)
    if k < 0.15:
        x = float(rng.choice([lo, hi, 0.0, lo + 0.1, hi - 0.1, (lo + hi) / 2]))
    elif k < 0.55:
        x = round(rng.uniform(lo, hi), rng.choice([1, 2, 3, 4]))
    else:
        x = rng.uniform(lo, hi)
    if decimals is not None:
        x = round(x, decimals)
    return x


def _is_leap(y):
    return y % 4 == 0 and (y % 100 != 0 or y % 400 == 0)


def _instant(rng, frac_digits):
    """a normalised instant (datetime with microseconds) in 1900..2200 and a flag 'boundary'"""
    boundary = rng.random() < 0.4
    if rng.random() < 0.04:
        # the epoch itself (origin_time 0 is falsy) and its neighbours
        base = datetime.datetime(1970, 1, 1) + datetime.timedelta(seconds=rng.choice([0, 0, 0, 1, -1, 60, -60, 86400, -86400]))
        us = rng.choice([0, 0, 0, 1000, 999000, 500]) if frac_digits else 0
        us -= us % (10 ** (6 - frac_digits)) if frac_digits else 0
        return base.replace(microsecond=us), True
    if boundary:
        y = rng.choice([1900, 1904, 1969, 1970, 1971, 1999, 2000, 2001, 2016, 2024, 2038, 2100, 2199, rng.randint(1900, 2199)])
        kind = rng.choice(["feb", "monthend", "yearend", "yearstart", "monthstart"])
        if kind == "feb":
            m, d = 2, rng.choice([28, 29] if _is_leap(y) else [27, 28])
        elif kind == "monthend":
            m = rng.randint(1, 12)
            d = (datetime.date(y + (m == 12), m % 12 + 1, 1) - datetime.timedelta(days=1)).day
        elif kind == "yearend":
            m, d = 12, 31
        elif kind == "yearstart":
            m, d = 1, 1
        else:
            m, d = rng.randint(1, 12), 1
        hh, mi, ss = rng.choice([(23, 59, 59), (0, 0, 0), (23, 59, 0), (12, 59, 59), (0, 0, 1), (23, 0, 0),
                                 (rng.randrange(24), 59, 59), (rng.randrange(24), 0, 0)])
    else:
        y = rng.randint(1900, 2199)
        m = rng.randint(1, 12)
        d = rng.randint(1, 28)
        hh, mi, ss = rng.randrange(24), rng.randrange(60), rng.randrange(60)
    if frac_digits == 0:
        us = 0
    else:
        us = rng.choice([0, 999999, 1, 500000, rng.randrange(1000000), rng.randrange(1000000)])
        q = 10 ** (6 - frac_digits)
        us -= us % q
    return datetime.datetime(y, m, d, hh, mi, ss, us), boundary


def _sec_band(whole, microsecond):
    """ZMAP / HORUS / NDK records written with a FRACTION of a second: the readers keep whole seconds today (int()); the
    property says "at the format's resolution", and a reader that keeps the written fraction is at least as faithful. Any
    origin time from the whole second up to the written instant (rounded up to the millisecond) is accepted."""
    return [_ms(whole), _ms(whole) + (microsecond + 999) // 1000] if microsecond else None


def _in_band(r, t):
    b = r.get("band")
    return bool(b) and b[0] <= t <= b[1]


def _ms(dt):
    """epoch milliseconds (floor) of a naive-UTC datetime by integer arithmetic"""
    delta = dt - EPOCH
    return (delta.days * 86400 + delta.seconds) * 1000 + delta.microseconds // 1000


def _fr(x):
    return frac(float(x))


def _num(rng, x, intlike=False):
    """a textual float that float() reads back as x"""
    if intlike and rng.random() < 0.5:
        return str(int(x))
    return _spell(rng, x, 0.8)


# each gen_* returns spec = dict(fmt=..., opts..., recs=[rec...]); a rec holds the written tokens, the tokens sent to the
# model ('mod', `~`-joined by build) and the expected event 'exp' = [ms, lat, lon, depth, mag] (strings; floats as repr)
def gen_csep(rng, n):
    recs = []
    for k in range(n):
        fd = rng.choice([0, 1, 2, 3, 3, 6, 6])
        dt, b = _instant(rng, fd)
        ts = dt.strftime("%Y-%m-%dT%H:%M:%S")
        if fd:
            ts += "." + f"{dt.microsecond:06d}"[:fd]
        lon, lat, mag, dep = _coord(rng, -180, 180), _coord(rng, -90, 90), _coord(rng, -1, 9.5), _coord(rng, -5, 700)
        cid = rng.choice(["", "0", str(rng.randrange(1000))])
        eid = rng.choice(["", str(k), "ev%d" % rng.randrange(10 ** 6), "ev%d" % rng.randrange(10 ** 6),
                          # round 5: ids that need csv quoting (the writer of C14 quotes them; csv quoting is inside the text model)
                          "us,ci%d" % rng.randrange(1000), 'say "%d"' % k, '"', "a;b c", " %d " % k, "lon", "x,\"y\",z"])
        recs.append(dict(text=[_spell(rng, lon), _spell(rng, lat), _spell(rng, mag), ts, _spell(rng, dep), cid, eid],
                         mod=[_fr(lon), _fr(lat), _fr(mag), dt.year, dt.month, dt.day, dt.hour, dt.minute, dt.second,
                              dt.microsecond, _fr(dep)],
                         exp=[_ms(dt), repr(lat), repr(lon), repr(dep), repr(mag)],
                         boundary=b or dt.microsecond % 1000 != 0,
                         # digits below the millisecond: floored today; the property fixes the millisecond band only
                         band=([_ms(dt), _ms(dt) + 1] if dt.microsecond % 1000 else None)))
    return dict(fmt="csep-csv", header=rng.random() < 0.5, recs=_repeat(rng, recs),
                quoting=rng.choice(["minimal", "minimal", "minimal", "all", "nonnumeric"]))


def gen_zmap(rng, n):
    ncol = rng.choice([10, 10, 11, 12, 13, 14])
    sep = rng.choice([" ", "\t", "   "])
    nan_opt = ncol > 10 and rng.random() < 0.4
    recs = []
    for k in range(n):
        dt, b = _instant(rng, rng.choice([0, 2, 6]))
        lon, lat, mag, dep = _coord(rng, -180, 180), _coord(rng, -90, 90), _coord(rng, -1, 9.5), _coord(rng, -5, 700)
        ystyle = rng.choice(["int", "float", "decimal"])
        if ystyle == "decimal":
            start = datetime.datetime(dt.year, 1, 1)
            length = (datetime.datetime(dt.year + 1, 1, 1) - start).total_seconds()
            f = min((dt - start).total_seconds() / length, 0.999999)
            ytxt = repr(round(dt.year + f, 6))
            if int(float(ytxt)) != dt.year:
                ytxt = str(dt.year)
        else:
            ytxt = str(dt.year) if ystyle == "int" else f"{dt.year}.0"
        sec = f"{dt.second}.{dt.microsecond:06d}".rstrip("0").rstrip(".") if dt.microsecond else _num(rng, dt.second, True)
        cols = [_spell(rng, lon), _spell(rng, lat), ytxt, _num(rng, dt.month, True), _num(rng, dt.day, True),
                _spell(rng, mag), _spell(rng, dep), _num(rng, dt.hour, True), _num(rng, dt.minute, True), sec]
        # the optional error columns (10..13): ZMAP files hold NaN there when the uncertainty is unknown
        opt = [rng.choice(["NaN", "nan", "NAN"]) if nan_opt and rng.random() < 0.7 else repr(round(rng.uniform(0, 5), 2))
               for _ in range(ncol - 10)]
        cols += opt
        whole = dt.replace(microsecond=0)
        recs.append(dict(text=cols, mod=[_fr(c) if c.lower() != "nan" else "0/1" for c in cols],
                         exp=[_ms(whole), repr(lat), repr(lon), repr(dep), repr(mag)],
                         boundary=b or dt.microsecond != 0 or ystyle == "decimal", band=_sec_band(whole, dt.microsecond)))
    return dict(fmt="zmap", sep=sep, recs=_repeat(rng, recs), **({"nan_cols": True} if nan_opt else {}))


_OFFS = [0, 0, 9 * 60, 9 * 60, -12 * 60, 14 * 60, 5 * 60 + 30, 5 * 60 + 45, -(3 * 60 + 30), -8 * 60, 60, -60, 13 * 60, -11 * 60,
         -(9 * 60 + 30), -(4 * 60 + 30), -30, -45, 30, -(2 * 60 + 15), 12 * 60 + 45, -1, 1]


def gen_jma(rng, n):
    recs = []
    for k in range(n):
        fd = rng.choice([1, 2, 3, 3, 6, 6, 6])
        dt, b = _instant(rng, fd)
        if fd == 6 and rng.random() < 0.08:   # exact tie at µs resolution: the float product decides; both neighbours allowed
            dt = dt.replace(microsecond=(dt.microsecond // 1000) * 1000 + 500)
        off = rng.choice(_OFFS) if rng.random() < 0.8 else rng.randrange(-12 * 60, 14 * 60 + 1)
        sign = "-" if off < 0 else "+"
        a = abs(off)
        style = rng.choice(["hhmm", "hh:mm"] + (["Z"] if off == 0 else []))
        otxt = "Z" if style == "Z" else (f"{sign}{a // 60:02d}{a % 60:02d}" if style == "hhmm" else f"{sign}{a // 60:02d}:{a % 60:02d}")
        ts = dt.strftime("%Y-%m-%dT%H:%M:%S") + "." + f"{dt.microsecond:06d}"[:fd] + otxt
        lon, lat, mag, dep = _coord(rng, -180, 180), _coord(rng, -90, 90), _coord(rng, -1, 9.5), _coord(rng, -5, 700)
        us_total = ((dt - EPOCH).days * 86400 + (dt - EPOCH).seconds - off * 60) * 10 ** 6 + dt.microsecond
        q, r = divmod(us_total, 1000)
        ms = q + (1 if r > 500 else 0)        # nearest; for r == 500 (tie) both q and q + 1 are accepted
        recs.append(dict(text=[ts, _spell(rng, lon), _spell(rng, lat), _spell(rng, dep), _spell(rng, mag)],
                         mod=[dt.year, dt.month, dt.day, dt.hour, dt.minute, dt.second, dt.microsecond, off * 60,
                              _fr(lon), _fr(lat), _fr(dep), _fr(mag)],
                         exp=[ms, repr(lat), repr(lon), repr(dep), repr(mag)],
                         boundary=b or off != 0 or dt.microsecond % 1000 != 0, tie=(r == 500),
                         # digits below the format's millisecond resolution: the property fixes the millisecond the instant
                         # lies in or next to, not the rounding rule (the code rounds to nearest today; flooring like the
                         # CSEP reader is as much "at the format's resolution")
                         band=([q, q + 1] if r else None)))
    return dict(fmt="jma-csv", header=rng.random() < 0.5, recs=_repeat(rng, recs))


def _denorm(rng, dt):
    """write a normalised instant with second >= 60 / minute >= 60 / hour >= 24 (each at most once), as HORUS does"""
    y, m, d, hh, mi, ss = dt.year, dt.month, dt.day, dt.hour, dt.minute, dt.second
    base = dt.replace(microsecond=0)
    extra = 0
    used = []
    if rng.random() < 0.5:
        base -= datetime.timedelta(seconds=60); used.append("s")
    if rng.random() < 0.3:
        base -= datetime.timedelta(minutes=60); used.append("m")
    if rng.random() < 0.3:
        base -= datetime.timedelta(hours=24); used.append("h")
    y, m, d, hh, mi, ss = base.year, base.month, base.day, base.hour, base.minute, base.second
    if "s" in used:
        ss += 60
    if "m" in used:
        mi += 60
    if "h" in used:
        hh += 24
    return (y, m, d, hh, mi, ss), used


def gen_horus(rng, n):
    layout = rng.choice(["real", "compact"])
    trailing = rng.choice([0, 1, 3])
    recs = []
    for k in range(n):
        dt, b = _instant(rng, rng.choice([0, 2, 6]))
        if dt.year < 1901:
            dt = dt.replace(year=1901)
        used = []
        clk = (dt.year, dt.month, dt.day, dt.hour, dt.minute, dt.second)
        if rng.random() < 0.35:
            clk, used = _denorm(rng, dt)
        sec_val = Fraction(clk[5]) + Fraction(dt.microsecond, 10 ** 6)
        lon, lat, dep, mag = (_coord(rng, -180, 180, 6), _coord(rng, -90, 90, 6), _coord(rng, -5, 700, 3),
                              _coord(rng, -1, 9.5, 2))
        if layout == "real":
            f = lambda v: f"{float(v):20.10f}"
            cols = [f(clk[0]), f(clk[1]), f(clk[2]), f(clk[3]), f(clk[4]), f"{float(sec_val):20.10f}", f(lat), f(lon), f(dep), f(mag)]
        else:
            cols = [str(clk[0]), str(clk[1]), str(clk[2]), str(clk[3]), str(clk[4]),
                    repr(float(sec_val)), _spell(rng, lat), _spell(rng, lon), _spell(rng, dep), _spell(rng, mag)]
        tail = [["0.2"], ["0.2", "*", "*"]][trailing // 2][:trailing] if trailing else []
        whole = dt.replace(microsecond=0)
        vals = [float(c) for c in cols]
        recs.append(dict(text=cols + tail,
                         mod=[clk[0], clk[1], clk[2], clk[3], clk[4], _fr(vals[5]), _fr(vals[6]), _fr(vals[7]), _fr(vals[8]), _fr(vals[9])],
                         exp=[_ms(whole), repr(vals[6]), repr(vals[7]), repr(vals[8]), repr(vals[9])],
                         boundary=b or bool(used) or dt.microsecond != 0, denorm="".join(used),
                         band=_sec_band(whole, dt.microsecond)))
    return dict(fmt="ingv_horus", layout=layout, recs=_repeat(rng, recs))


_NDK_T = ["C200501010120A   B:  4    4  40 S: 27   33  50 M:  0    0   0 CMT: 1 TRIHD:  0.6",
          "CENTROID:     -0.3 0.9  13.76 0.06  -89.08 0.09 162.8 12.5 FREE S-20050322125201",
          " 0.838 0.201 -0.005 0.231 -0.833 0.270  1.050 0.121 -0.369 0.161  0.044 0.240",
          "V10   1.581 56  12  -0.537 23 140  -1.044 24 241 ", "   9 29  142 133 72   66"]


def _ndk_lines25(rng, expo, sm_t):
    """lines 2-5 of a well-formed record: the template of a real record, or (60 %) generated variants of every field
    `_read_lines` looks at: 8- or 14-character event name, the three data types in any order, source type CMT: 0/1/2,
    TRIHD/BOXHD, depth type FREE/FIX/BDY, time stamp Q-/S-/O-, version code, all numbers varied (fixed columns kept)"""
    if rng.random() < 0.4:
        return [_NDK_T[0], _NDK_T[1], f"{expo:2d}" + _NDK_T[2], _NDK_T[3] + sm_t + _NDK_T[4]]
    name = rng.choice(["C200501010120A", "B010185A", "M010176A", "C201703021245A", "S199912312359Z"])
    kinds = ["B", "S", "M"]
    rng.shuffle(kinds)
    used = " ".join(f"{k}:{rng.randrange(200):3d}{rng.randrange(400):5d}{rng.choice([40, 45, 50, 125, 135]):4d}" for k in kinds)
    src = rng.choice(["CMT: 0", "CMT: 1", "CMT: 2", "CMT:1 ", "cmt: 1"])
    mr = f"{rng.choice(['TRIHD', 'BOXHD', 'TRIHD', 'trihd'])}:{rng.uniform(0.3, 60.0):5.1f}"
    line2 = f"{name:<16} {used:<44} {src:<6} {mr}"
    assert line2[62:68] == src and line2[69:] == mr and line2[17:61] == f"{used:<44}"
    ty = rng.choice(["FREE", "FIX ", "BDY ", "free"])
    stamp = rng.choice(["S-", "Q-", "O-", "s-"]) + f"{rng.randrange(19760101000000, 20251231235959):014d}"
    line3 = ("CENTROID: " + f"{rng.uniform(-9, 99):8.1f}{rng.uniform(0, 9):4.1f}{rng.uniform(-90, 90):7.2f}{rng.uniform(0, 9):5.2f}"
             f"{rng.uniform(-180, 180):8.2f}{rng.uniform(0, 9):5.2f}{rng.uniform(0, 700):6.1f}{rng.uniform(0, 99):5.1f}"
             + " " + ty + " " + stamp)
    assert line3[59:63] == ty and line3[64:] == stamp and len(line3[10:58]) == 48
    line4 = f"{expo:2d}" + "".join(f" {rng.uniform(-9.999, 9.999):6.3f}" for _ in range(12))
    axes = "".join(f"{rng.uniform(-9.9, 9.9):8.3f}{rng.randrange(90):3d}{rng.randrange(360):4d}" for _ in range(3))
    planes = f"{rng.randrange(360):3d}{rng.randrange(90):3d}{rng.randrange(-180, 181):5d}{rng.randrange(360):4d}{rng.randrange(90):3d}{rng.randrange(-180, 181):5d}"
    line5 = rng.choice(["V10", "S10", "V09"]) + axes + " " + sm_t + " " + planes
    assert line5[49:56] == sm_t and len(axes) == 45
    return [line2, line3, line4, line5]


def gen_ndk(rng, n):
    recs = []
    for k in range(n):
        dt, b = _instant(rng, rng.choice([0, 1]))
        sec60 = False
        wdt = dt
        if dt.second == 0 and dt.microsecond == 0 and rng.random() < 0.7 or rng.random() < 0.08:
            # write hh:mm:00.0 as (previous minute):60.0
            dt = dt.replace(second=0, microsecond=0)
            wdt = dt - datetime.timedelta(minutes=1)
            sec60 = True
        tenth = dt.microsecond // 100000
        date = f"{wdt.year:04d}/{wdt.month:02d}/{wdt.day:02d}"
        tm = f"{wdt.hour:02d}:{wdt.minute:02d}:{60 if sec60 else wdt.second:02d}.{tenth}"
        lat, lon, dep = _coord(rng, -90, 90, 2), _coord(rng, -180, 180, 2), _coord(rng, 0, 700, 1)
        lat_t, lon_t, dep_t = f"{lat:6.2f}", f"{lon:7.2f}", f"{dep:5.1f}"
        expo = rng.choice([rng.randint(20, 30), rng.randint(7, 35)])
        sm_t = rng.choice([f"{rng.uniform(1.0, 9.999):7.3f}", f"{rng.uniform(0.001, 99.999):7.3f}", f"{rng.uniform(1, 999):7.2f}"])
        line1 = f"{rng.choice(['PDE ', 'ISC ', 'SWE ', 'MLI '])} {date} {tm} {lat_t} {lon_t} {dep_t} {rng.uniform(0, 9):3.1f} {rng.uniform(0, 9):3.1f} " \
                f"{rng.choice(['EL SALVADOR', 'OFF COAST OF CHILE', 'KURIL ISLANDS']):<24}"
        lines = [line1] + _ndk_lines25(rng, expo, sm_t)
        assert lines[4][49:56] == sm_t and line1[16:26] == tm and line1[27:33] == lat_t and line1[34:41] == lon_t \
            and line1[42:47] == dep_t and lines[3][:2] == f"{expo:2d}"
        mw = 2.0 / 3.0 * (math.log10(float(sm_t) * (10 ** (expo - 7))) - 9.1)
        whole = dt.replace(microsecond=0)
        recs.append(dict(text=lines,
                         mod=[wdt.year, wdt.month, wdt.day, wdt.hour, wdt.minute, 60 if sec60 else wdt.second, tenth,
                              _fr(float(lat_t)), _fr(float(lon_t)), _fr(float(dep_t)), _fr(mw)],
                         exp=[_ms(whole), repr(float(lat_t)), repr(float(lon_t)), repr(float(dep_t)), repr(mw)],
                         boundary=b or sec60, sec60=sec60, band=_sec_band(whole, tenth * 100000)))
    return dict(fmt="ndk", recs=_repeat(rng, recs))


GEN = {"csep-csv": gen_csep, "zmap": gen_zmap, "jma-csv": gen_jma, "ingv_horus": gen_horus, "ndk": gen_ndk}
OP = {"csep-csv": "c19_csep", "zmap": "c19_zmap", "jma-csv": "c19_jma", "ingv_horus": "c19_horus", "ndk": "c19_ndk"}


def _csv_cell(cell, quoting, k):
    """one cell as a csv writer of the given quoting policy spells it (QUOTE_MINIMAL / QUOTE_ALL / QUOTE_NONNUMERIC)"""
    need = any(ch in cell for ch in ',"\r\n')
    if need or quoting == "all" or (quoting == "nonnumeric" and k in (3, 6)):
        return '"' + cell.replace('"', '""') + '"'
    return cell


def build(spec):
    """spec -> (file text, model request)"""
    fmt, recs = spec["fmt"], spec["recs"]
    mod = [("~".join(str(t) for t in r["mod"])) for r in recs]
    if fmt == "csep-csv":
        q = spec.get("quoting", "minimal")
        lines = [",".join(_csv_cell(c, q, k) for k, c in enumerate(r["text"])) for r in recs]
        if spec.get("header"):
            lines.insert(0, "lon,lat,mag,time_string,depth,catalog_id,event_id")
            mod.insert(0, "H")
        text = "\n".join(lines) + "\n"
    elif fmt == "zmap":
        text = "\n".join(spec["sep"].join(r["text"]) for r in recs) + "\n"
    elif fmt == "jma-csv":
        lines = [";".join(r["text"]) for r in recs]
        if spec.get("header"):
            lines.insert(0, "timestamp;longitude;latitude;depth;magnitude")
            mod.insert(0, "H")
        text = "\n".join(lines) + "\n"
    elif fmt == "ingv_horus":
        head = "Year\tMo\tDa\tHo\tMi\tSe\tLat\tLon\tDepth\tMw\tsigMw\tGeo-Ita\tGeo-CPTI15\t"
        text = head + "\n" + "\n".join("\t".join(r["text"]) + ("\t" if spec["layout"] == "real" else "") for r in recs) + "\n"
    else:
        text = "\n".join("\n".join(r["text"]) for r in recs) + "\n"
    return text, f"{OP[fmt]} " + (";".join(mod) if mod else "-")


READER = {"csep-csv": "csep_ascii", "zmap": "zmap_ascii", "jma-csv": "jma_csv", "ingv_horus": "ingv_horus", "ndk": "ndk"}

# every documented way of getting the events of a file (wave 5): `how` is part of the case, chosen from rng
HOWS = ["type",                  # csep.load_catalog(path, type=fmt)
        "loader",                # csep.load_catalog(path, loader=readers.X)            (type left at its default)
        "loader+othertype",      # csep.load_catalog(path, type=<another text format>, loader=readers.X)
        "loader+sametype",       # csep.load_catalog(path, type=fmt, loader=readers.X)
        "custom-loader",         # csep.load_catalog(path, loader=<user function wrapping readers.X>)
        "class",                 # CSEPCatalog.load_catalog(path, loader=readers.X)
        "direct",                # readers.X(path) -> event tuples
        "format-csep",           # csep.load_catalog(path, type=fmt, format='csep')
        "pathlib",               # csep.load_catalog(pathlib.Path(path), type=fmt)
        "kwargs",                # ..., name=..., compute_stats=False, region=None, metadata={}
        "apply-filters",         # ..., apply_filters=True, filters=[a statement every event satisfies]
        "apply-filters-str",     # ..., apply_filters=True, filters='magnitude >= -1000'
        # round 6: every argument both ways, overriding subclasses, warnings as errors
        "positional",            # csep.load_catalog(path, fmt, 'native', None, False)        (all arguments positional)
        "keyword-filename",      # csep.load_catalog(filename=path, type=fmt, format='native', loader=None, apply_filters=False)
        "subclass",              # class Sub(CSEPCatalog): pass ; Sub.load_catalog(path, loader=readers.X) -> a Sub
        "subclass-kw",           # Sub.load_catalog(filename=path, loader=readers.X, name=...)
        "warnings-error",        # csep.load_catalog(path, type=fmt) with warnings (except deprecation notices) as exceptions
        # round 7 (j): user callables of other kinds
        "callable-object",       # loader = an object with __call__ (no __name__, no signature to probe)
        "partial-loader"]        # loader = functools.partial(readers.X)
HOWS_NDK = ["ndk-stringio", "ndk-bytesio", "ndk-open-text", "ndk-open-binary", "ndk-text-data", "ndk-bytes-data"]
AWAITING_DECISION = ["custom-type-string-with-loader"]   # load_catalog(f, type='mine', loader=fn): KeyError 'mine' (see notes); not exercised


def _rows(a):
    return [[int(r["origin_time"]), Fraction(float(r["latitude"])), Fraction(float(r["longitude"])),
             Fraction(float(r["depth"])), Fraction(float(r["magnitude"]))] for r in a]


def _accessors(c, rows):
    """the public accessors must tell the same story as the stored array (None = fine, else what differs)"""
    import numpy
    n = len(rows)
    if c.event_count != n or c.get_number_of_events() != n:
        return f"event_count {c.event_count} / get_number_of_events {c.get_number_of_events()} for {n} stored events"
    for name, col in (("get_epoch_times", 0), ("get_latitudes", 1), ("get_longitudes", 2), ("get_depths", 3), ("get_magnitudes", 4)):
        v = numpy.asarray(getattr(c, name)())
        if v.shape != (n,) or any(Fraction(float(x)) != r[col] for x, r in zip(v, rows)):
            return f"{name}() differs from the stored column"
    if n:
        dts = c.get_datetimes()
        k = 0 if n == 1 else n // 2
        want = EPOCH + datetime.timedelta(milliseconds=rows[k][0])
        if dts[k].replace(tzinfo=None) != want:
            return f"get_datetimes()[{k}] = {dts[k]} for origin_time {rows[k][0]}"
    return None


@contextlib.contextmanager
def numeric_state(prec):
    """round 7 (k): the calling program's global numeric state — numpy raising on divide / invalid / overflow, a decimal
    context of a few digits — must not change what a file decodes to"""
    if not prec:
        yield
        return
    import decimal
    import numpy
    with numpy.errstate(divide="raise", invalid="raise", over="raise"), decimal.localcontext() as dc:
        dc.prec = prec
        yield


_NOTES = []      # observations of _loaded that are not verdicts (drained into the histogram by check_case)


def _loaded(path, fmt, zone=None, how="type", other=None):
    """events of the file through the entry point `how`: list of [ms, lat, lon, depth, mag] or 'err:Class:text'"""
    import csep, io, pathlib
    from csep.utils import readers
    from csep.core.catalogs import CSEPCatalog
    rd = getattr(readers, READER[fmt], None)
    try:
        with local_zone(zone):
            if how == "type":
                c = csep.load_catalog(path, type=fmt)
            elif how == "loader":
                c = csep.load_catalog(path, loader=rd)
            elif how == "loader+othertype":
                c = csep.load_catalog(path, type=other, loader=rd)
            elif how == "loader+sametype":
                c = csep.load_catalog(path, type=fmt, loader=rd)
            elif how == "custom-loader":
                calls = []
                def mine(fname):
                    calls.append(fname)
                    return rd(fname)
                c = csep.load_catalog(path, type=other or "csep-csv", loader=mine)
                if not calls:        # how often / with which probing calls the loader is invoked is the code's business
                    return "err:LoaderNotUsed:the loader passed to load_catalog was never called"
            elif how == "class":
                c = CSEPCatalog.load_catalog(path, loader=rd)
            elif how == "format-csep":
                c = csep.load_catalog(path, type=fmt, format="csep")
            elif how == "pathlib":
                c = csep.load_catalog(pathlib.Path(path), type=fmt)
            elif how == "kwargs":
                c = csep.load_catalog(path, type=fmt, name="cat-" + fmt, compute_stats=False, region=None, metadata={})
                if c.name != "cat-" + fmt:
                    return f"err:KwargLost:name={c.name!r}"
            elif how == "apply-filters":
                c = csep.load_catalog(path, type=fmt, apply_filters=True, filters=["magnitude >= -1000.0", "depth < 1e9"])
            elif how == "apply-filters-str":
                c = csep.load_catalog(path, type=fmt, apply_filters=True, filters="magnitude >= -1000.0")
            elif how == "callable-object":
                class Loader:
                    def __init__(self): self.calls = 0
                    def __call__(self, fname):
                        self.calls += 1
                        return rd(fname)
                ld = Loader()
                c = csep.load_catalog(path, type=other or "csep-csv", loader=ld)
                if not ld.calls:
                    return "err:LoaderNotUsed:the callable object passed to load_catalog was never called"
            elif how == "partial-loader":
                import functools
                c = csep.load_catalog(path, type=fmt, loader=functools.partial(rd))
            elif how == "positional":
                c = csep.load_catalog(path, fmt, "native", None, False)
            elif how == "keyword-filename":
                c = csep.load_catalog(filename=path, type=fmt, format="native", loader=None, apply_filters=False)
            elif how in ("subclass", "subclass-kw"):
                import numpy as _np

                class Sub(CSEPCatalog):          # a user's catalog class: overrides accessors consistently, is falsy when empty
                    def get_magnitudes(self): return _np.array(self.catalog["magnitude"], copy=True)
                    def get_epoch_times(self): return _np.array(self.catalog["origin_time"], copy=True)
                    def get_number_of_events(self): return 0 if self.catalog is None else int(self.catalog.shape[0])
                    def __len__(self): return self.get_number_of_events()
                    def __bool__(self): return len(self) > 0
                c = Sub.load_catalog(path, loader=rd) if how == "subclass" else \
                    Sub.load_catalog(filename=path, loader=rd, name="sub-" + fmt)
                if type(c) is not Sub:       # which class comes back is not the property's business (events are): counted
                    _NOTES.append("subclass.load_catalog returned " + type(c).__name__)
                if how == "subclass-kw" and c.name != "sub-" + fmt:
                    return f"err:KwargLost:name={c.name!r}"
            elif how == "warnings-error":
                import warnings
                with warnings.catch_warnings():
                    warnings.simplefilter("error")
                    # pyCSEP itself calls datetime.utcnow() (deprecated): deprecation notices are not the readers' business
                    for cat_ in (DeprecationWarning, PendingDeprecationWarning, FutureWarning):
                        warnings.simplefilter("ignore", cat_)
                    try:
                        c = csep.load_catalog(path, type=fmt)
                    except Warning as w:
                        # the file loads only with warnings switched off: an observation about the environment, the
                        # events are judged on the ordinary load
                        _NOTES.append("load raises only under warnings-as-errors: " + type(w).__name__)
                        c = None
                if c is None:
                    c = csep.load_catalog(path, type=fmt)
            else:
                if how == "direct":
                    ev = rd(path)
                elif how == "ndk-stringio":
                    ev = readers.ndk(io.StringIO(open(path, newline=None).read()))
                elif how == "ndk-bytesio":
                    ev = readers.ndk(io.BytesIO(open(path, "rb").read().replace(b"\r\n", b"\n")))
                elif how == "ndk-open-text":
                    with open(path) as fh:
                        ev = readers.ndk(fh)
                elif how == "ndk-open-binary":
                    with open(path, "rb") as fh:
                        ev = readers.ndk(io.BytesIO(fh.read().replace(b"\r\n", b"\n")))
                elif how == "ndk-text-data":
                    ev = readers.ndk(open(path, newline=None).read())
                elif how == "ndk-bytes-data":
                    ev = readers.ndk(open(path, "rb").read().replace(b"\r\n", b"\n"))
                else:
                    raise RuntimeError("unknown entry point " + how)
                out = []
                for t in ev:
                    t = tuple(t)          # list, tuple or a record of a structured array: the same six values
                    tm = t[1]
                    if int(tm) != tm:
                        return f"err:NonIntegerTime:{tm!r}"
                    out.append([int(tm)] + [Fraction(float(x)) for x in t[2:6]])
                    if len(t) != 6:
                        return f"err:TupleLength:{len(t)}"
                return out
        if not isinstance(c, CSEPCatalog):
            return "err:WrongClass:" + type(c).__name__
        rows = _rows(c.catalog)
        bad = _accessors(c, rows)
        if bad:
            return "err:Accessor:" + bad
        return rows
    except Exception as e:
        return "err:" + type(e).__name__ + ":" + str(e)[:120]


def _mag_ok(fmt, got, want):
    if fmt != "ndk":
        return got == want
    return abs(got - want) <= Fraction(1, 10 ** 9) * max(1, abs(want))


def _same(fmt, a, b):
    return a[0] == b[0] and a[1] == b[1] and a[2] == b[2] and a[3] == b[3] and _mag_ok(fmt, a[4], b[4])


def _show(ev):
    return [ev[0]] + [float(x) for x in ev[1:]] if not isinstance(ev, str) else ev


class Ctx:
    def __init__(self, run):
        self.run, self.drv, self.pending = run, Driver(), []
        self.dir = tempfile.mkdtemp(prefix="verif_c19_")
        self.k = 0

    def close(self):
        shutil.rmtree(self.dir, ignore_errors=True)


def check_case(ctx, spec, tag, light=False):
    run = ctx.run
    fmt = spec["fmt"]
    compact = spec
    if spec.get("tile"):      # a long file described compactly: the base records repeated up to `tile` records
        spec = dict(spec, recs=(spec["recs"] * (spec["tile"] // len(spec["recs"]) + 1))[:spec["tile"]])
    text, req = build(spec)
    ctx.k += 1
    path = os.path.join(ctx.dir, f"cat{ctx.k}." + {"csep-csv": "csv", "zmap": "dat", "jma-csv": "csv", "ingv_horus": "txt", "ndk": "ndk"}[fmt])
    recs = spec["recs"]
    sha = hashlib.sha1(text.encode()).hexdigest()
    # every fourth file (chosen by the content hash, so a replay makes the same choice) lacks the final newline:
    # the records are still well-formed and the last one must be read
    strip_nl = int(sha[:2], 16) % 4 == 0 and text.endswith("\n")
    written = text[:-1] if strip_nl else text
    if spec.get("eol") == "crlf":      # a file written on Windows: every reader opens in text mode / universal newlines
        written = written.replace("\n", "\r\n")
        run.count("file-with-crlf-line-ends")
    with open(path, "w", newline="") as f:
        f.write(written)
    if strip_nl:
        run.count("file-without-final-newline")
    zone = spec.get("tz")
    case = dict(tag=tag, fmt=fmt, n=len(recs), sha1=sha, tz=zone, how=spec.get("how", "type"), spec=compact)
    small = dict(tag=tag, fmt=fmt, n=len(recs), sha1=sha, tz=zone, how=spec.get("how", "type"),
                 first=recs[0]["text"] if recs else None)
    n_rep = len(recs) - len({json.dumps(r["text"]) for r in recs})
    run.case(small, f"{sha}|{zone}|{spec.get('how', 'type')}" if n_rep or any(r.get("boundary") for r in recs) else None)
    run.count(fmt)
    run.count("tz:" + str(zone))
    if n_rep:
        run.count(f"{fmt}: file with records identical in every column")
    for r in recs:
        if r.get("denorm"):
            run.count("horus-denorm-" + r["denorm"])
        if r.get("sec60"):
            run.count("ndk-sec60")
    how = spec.get("how", "type")
    run.count("entry:" + how)
    if spec.get("prelude"):
        # round 7 (i): calls the library rejects (a file that is not of this format through the same entry point, an unknown
        # type string), caught by the caller, BEFORE the judged load; module-level state must not carry anything over
        bad = os.path.join(ctx.dir, "not_a_catalog." + path.rsplit(".", 1)[-1])
        with open(bad, "w") as f:
            f.write("this is not a catalog\n1 2 three\n\n,,;;\n")
        r = _loaded(bad, fmt, zone, how, spec.get("other"))
        run.count("prelude: load of a non-catalog file " + ("rejected, caught" if isinstance(r, str) else "returned events"))
        try:
            import csep
            csep.load_catalog(path, type="no-such-type")
        except Exception:
            pass
        os.unlink(bad)
    with numeric_state(spec.get("numstate")):
        got = _loaded(path, fmt, zone, how, spec.get("other"))
    if spec.get("numstate"):
        run.count("numeric state: numpy.errstate(divide, invalid, over = raise) + decimal prec %d" % spec["numstate"])
    while _NOTES:
        run.count("observed: " + _NOTES.pop())
    os.unlink(path)
    want = [[int(r["exp"][0])] + [Fraction(float(x)) for x in r["exp"][1:]] for r in recs]
    # direct oracle: one event per record, in order, fields as encoded
    if isinstance(got, str):
        run.oracle_failure(case, f"{fmt}: loading a file of {len(recs)} well-formed record(s) raised {got}")
    elif len(got) != len(want):
        run.oracle_failure(case, f"{fmt}: {len(got)} events loaded from {len(want)} records")
    else:
        for k, (g, w) in enumerate(zip(got, want)):
            if recs[k].get("tie") and g[0] == w[0] + 1:      # band rule: an exact half-millisecond may go either way
                run.count("jma-tie-up")
                w = [g[0]] + w[1:]
            elif recs[k].get("tie"):
                run.count("jma-tie-down")
            elif g[0] != w[0] and _in_band(recs[k], g[0]):
                run.count(f"{fmt}: digits below the format's resolution not handled as the reference does (within the band)")
                w = [g[0]] + w[1:]
            if not _same(fmt, g, w):
                run.oracle_failure(case, f"{fmt}: record {k} ({recs[k]['text'] if fmt != 'ndk' else recs[k]['text'][0]}) loaded as "
                                         f"{_show(g)} expected {_show(w)}")
                break
    # text-level model (Model/ReaderText.lean): the characters of the file as written, through line splitting, field
    # splitting / fixed columns, decimal numerals -> float64, strptime matching, then the token model
    if light:
        # a long file: the text model runs in its own driver process with an unlimited stack (its line / character
        # recursions are not tail calls); if even that is exhausted the comparison is skipped and said so
        if spec.get("nan_cols"):
            run.count("zmap: NaN in the optional error columns (text model skipped)")
            return
        _compare_text_model(ctx, case, got, _big_text_model(fmt, written), [(True if r.get("tie") else r.get("band")) for r in recs])
        return
    if spec.get("nan_cols"):
        # the word NaN is not a numeral of the text model's grammar (its floats are rationals); the token model (which
        # ignores the optional columns, as the reader does) and the direct oracle judge these files
        run.count("zmap: NaN in the optional error columns (text model skipped)")
        t = None
    else:
        t = ctx.drv.ask((f"c19_ndk_mw " if fmt == "ndk" else f"c19_text {fmt} ") + written.encode('latin-1').hex())
    if fmt == "jma-csv":
        j = ctx.drv.ask(req)                                  # exact model (what the theorems are about)
        i = ctx.drv.ask(req.replace("c19_jma ", "c19_jmaf ", 1))  # float path, compared bit for bit
        ctx.pending.append((case, i, got, j, [bool(r.get("tie")) for r in recs], t, [r.get("band") for r in recs]))
    else:
        i = ctx.drv.ask(req)
        ctx.pending.append((case, i, got, None, None, t, [r.get("band") for r in recs]))


def _big_text_model(fmt, written):
    import resource, subprocess
    from .core import DRIVER
    def lim():
        resource.setrlimit(resource.RLIMIT_STACK, (resource.RLIM_INFINITY, resource.RLIM_INFINITY))
    try:
        p = subprocess.run([DRIVER], input=("c19_ndk_mw " if fmt == "ndk" else f"c19_text {fmt} ")
                           + f"{written.encode('latin-1').hex()}\n", stdout=subprocess.PIPE,
                           stderr=subprocess.PIPE, text=True, preexec_fn=lim)
    except Exception:
        return "outside"
    return p.stdout.strip() if p.returncode == 0 and p.stdout.strip() else "outside"


def _loose_ok(rule, got_t, model_t):
    """rule True: an exact half-millisecond tie, either neighbour; rule [lo, hi]: the resolution band of the record"""
    if rule is True:
        return abs(got_t - model_t) == 1
    return rule[0] <= got_t <= rule[1]


def _parse_events(m, fmt=None):
    if m == "ok:":
        return []
    out = []
    for p in m[3:].split(";"):
        f = p.split("~")
        if fmt == "ndk":      # c19_ndk_mw: the last field is the bit pattern of the model's Mw (real layer at Float)
            import struct
            out.append([int(f[0])] + [Fraction(x) for x in f[1:4]]
                       + [Fraction(struct.unpack("<d", struct.pack("<Q", int(f[4])))[0])])
        else:
            out.append([int(f[0])] + [Fraction(x) for x in f[1:]])
    return out


def _compare_text_model(ctx, case, got, m, ties):
    """implementation vs the text-level model on the bytes of the file"""
    fmt = case["fmt"]
    if m == "outside":
        ctx.run.count("text-model: file outside its domain")
        return
    ctx.run.count("text-model compared")
    if m.startswith("ok:"):
        evs = _parse_events(m, fmt)     # ndk: Mw = 2/3 (log10 M0 - 9.1) computed by the model (Model/NdkMagnitude, Float)
        same = (not isinstance(got, str)) and len(got) == len(evs)
        if same:
            for k, (g, e) in enumerate(zip(got, evs)):
                if ties and ties[k] and _loose_ok(ties[k], g[0], e[0]):
                    e = [g[0]] + e[1:]
                if not _same(fmt, g, e):
                    same = False
                    break
    else:
        same = isinstance(got, str)
    if not same:
        ctx.run.mismatch(dict(case, op="c19_text"), got if isinstance(got, str) else [_show(g) for g in got[:5]], m[:600])


def flush(ctx):
    out = ctx.drv.run()
    for case, i, got, j, ties, t, bands in ctx.pending:
        fmt = case["fmt"]
        loose = [(True if a else b) for a, b in zip(ties, bands)] if ties else bands
        if t is not None:
            _compare_text_model(ctx, case, got, out[t], loose)
        if i is None:
            continue
        m = out[i]
        if j is not None and out[j] != m:
            # the exact-rounding model and the float path may differ only on exact half-millisecond ties
            a = [p.split("~")[0] for p in out[j][3:].split(";")]
            b = [p.split("~")[0] for p in m[3:].split(";")]
            off_tie = [k for k, (x, y) in enumerate(zip(a, b)) if x != y and not ties[k]]
            ctx.run.count("jma-exact-vs-float-differ-on-tie", sum(1 for x, y in zip(a, b) if x != y))
            if off_tie or len(a) != len(b):
                raise RuntimeError(f"JMA float path differs from exact nearest-ms away from a tie: record {off_tie[:3]} of {case['sha1']}")
        if m.startswith("ok:"):
            evs = _parse_events(m)
            same = (not isinstance(got, str)) and len(got) == len(evs)
            if same:
                for k, (g, e) in enumerate(zip(got, evs)):
                    if loose and loose[k] and g[0] != e[0] and _loose_ok(loose[k], g[0], e[0]):
                        # the property allows either neighbour of an exact half-millisecond (and of any instant written
                        # with digits below the millisecond); loss of bit-exactness with the float-path model is
                        # recorded, not reported (the direct oracle has checked that the value lies in the band)
                        ctx.run.count("jma-tie-not-bitexact")
                        e = [g[0]] + e[1:]
                    if not _same(fmt, g, e):
                        same = False
                        break
        else:
            same = isinstance(got, str)
        if not same:
            ctx.run.mismatch(case, got if isinstance(got, str) else [_show(g) for g in got[:5]], m[:600])
    ctx.pending, ctx.drv = [], Driver()


# ----------------------------------------------------------------------------- source-derived tables
def extract_tables():
    """(allowed, mapping, zmap_cols, horus_cols) read with ast from the files under test"""
    init = ast.parse(open(os.path.join(REPO, "csep", "__init__.py")).read())
    rd = ast.parse(open(os.path.join(REPO, "csep", "utils", "readers.py")).read())
    allowed = mapping = zmap = horus = None
    for fn in ast.walk(init):
        if isinstance(fn, ast.FunctionDef) and fn.name == "load_catalog":
            for node in ast.walk(fn):
                if isinstance(node, ast.Compare) and isinstance(node.ops[0], ast.NotIn) and isinstance(node.comparators[0], ast.Tuple) \
                        and isinstance(node.left, ast.Name) and node.left.id == "type":
                    allowed = [e.value for e in node.comparators[0].elts]
                if isinstance(node, ast.Assign) and getattr(node.targets[0], "id", None) == "class_loader_mapping":
                    mapping = []
                    for k, v in zip(node.value.keys, node.value.values):
                        d = {kk.value: vv for kk, vv in zip(v.keys, v.values)}
                        cls = d["class"].attr
                        ld = d["loader"]
                        mapping.append((k.value, cls, "None" if isinstance(ld, ast.Constant) else ld.attr))
    for fn in ast.walk(rd):
        if isinstance(fn, ast.FunctionDef) and fn.name == "zmap_ascii":
            for node in ast.walk(fn):
                if isinstance(node, ast.ClassDef) and node.name == "ColumnIndex":
                    zmap = [(a.targets[0].id, a.value.value) for a in node.body if isinstance(a, ast.Assign)]
        if isinstance(fn, ast.FunctionDef) and fn.name == "ingv_horus":
            for node in ast.walk(fn):
                if isinstance(node, ast.Assign) and getattr(node.targets[0], "id", None) == "ind":
                    horus = [(k.value, v.elts[0].value) for k, v in zip(node.value.keys, node.value.values)]
    return allowed, mapping, zmap, horus


def check_tables(run, drv_tables):
    try:
        allowed, mapping, zmap, horus = extract_tables()
        if None in (allowed, mapping, zmap, horus):
            raise ValueError("shape of the source changed")
    except Exception as e:
        run.assumptions.append(f"dispatch/column tables could not be extracted from source ({e}); only the file-level "
                               f"correspondence ties the tables to the code in this run")
        run.extra["tables_extracted"] = False
        return
    run.extra["tables_extracted"] = True
    impl = ("allowed=" + ",".join(allowed) + "|mapping=" + ",".join(f"{a}:{b}:{c}" for a, b, c in mapping) +
            "|zmap=" + ",".join(f"{a}:{b}" for a, b in zmap) + "|horus=" + ",".join(f"{a}:{b}" for a, b in horus))
    case = dict(tag="tables", impl=impl)
    run.case(case, "tables")
    # oracle (dispatch_total on the implementation's own table): every accepted type has an entry, and the five text
    # formats reach their reader
    # The tables are read off the SOURCE TEXT: how the code spells its dispatch (a literal dict, names of an enum's
    # members, a tuple in an `if`) is layout. What the property demands — each of the five formats reaches a reader that
    # decodes its files, an explicit loader wins — is observed at run time by the file-level cases (every entry point)
    # and by check_selection. So a difference here is recorded, and becomes a verdict only when confirmed at run time.
    import csep
    keys = {a: (b, c) for a, b, c in mapping}
    for t in allowed:
        if t not in keys:
            try:
                csep.load_catalog(os.path.join(REPO, "no-such-file-for-the-dispatch-probe"), type=t)
            except KeyError:
                run.oracle_failure(case, f"load_catalog accepts type={t!r} but has no (class, reader) entry for it (KeyError)")
            except Exception:
                run.count("tables:accepted type without literal entry, but dispatch works at run time")
    for t, rdr in (("csep-csv", "csep_ascii"), ("zmap", "zmap_ascii"), ("jma-csv", "jma_csv"), ("ingv_horus", "ingv_horus"), ("ndk", "ndk")):
        if t not in allowed or keys.get(t) != ("CSEPCatalog", rdr):
            run.count("tables:source spells the dispatch of a text format differently (file-level cases decide)")
    model = drv_tables.split("|documented=")[0]
    differs = (sorted(impl.split("|")[0][8:].split(",")) != sorted(model.split("|")[0][8:].split(",")) or
               sorted(impl.split("|")[1][8:].split(",")) != sorted(model.split("|")[1][8:].split(",")) or
               impl.split("|")[2:] != model.split("|")[2:])
    run.extra["source_tables_equal_model_tables"] = not differs
    if differs:
        run.count("tables:source tables differ from the model's tables (layout; file-level cases decide)")
        run.extra["source_tables_difference"] = dict(impl=impl[:600], model=model[:600])
    # runtime: an unknown type is rejected
    import csep
    try:
        csep.load_catalog("nofile", type="no-such-type")
        run.oracle_failure(dict(tag="unknown-type"), "load_catalog accepted an unknown type string")
    except ValueError:
        pass
    except Exception as e:
        run.count("unknown-type-raises-" + type(e).__name__)


def check_selection(run):
    """reader selection of load_catalog(type=t, loader=f) vs `Readers.selectLoader`: for every accepted text type a loader
    passed by the caller must be the function that reads the file (observed through a loader that returns a sentinel
    event; nothing inside csep is patched). The unknown-type-with-loader combination is in AWAITING_DECISION."""
    import csep
    d = tempfile.mkdtemp(prefix="verif_c19sel_")
    try:
        path = os.path.join(d, "any.txt")
        with open(path, "w") as f:
            f.write("this file is not in any catalog format\n")
        drv, todo = Driver(), []
        for t in list(FORMATS) + ["ingv_emrcmt"]:
            calls = []
            def sentinel(fname, _calls=calls):
                _calls.append(fname)
                return [("s", 123456789, 1.5, 2.5, 3.5, 4.5)]
            try:
                c = csep.load_catalog(path, type=t, loader=sentinel)
                ev = _rows(c.catalog)
                impl = "CSEPCatalog:custom" if (len(calls) >= 1 and ev == [[123456789, Fraction(3, 2), Fraction(5, 2), Fraction(7, 2), Fraction(9, 2)]]) \
                    else f"{type(c).__name__}:other-reader({len(calls)} calls of the passed loader)"
            except Exception as e:
                impl = f"{type(e).__name__}" + ("" if calls else ":passed-loader-not-called")
            case = dict(tag="selection", type=t, loader="custom")
            run.case(case, f"selection|{t}")
            if impl != "CSEPCatalog:custom":
                run.oracle_failure(case, f"load_catalog(fname, type={t!r}, loader=f) did not read the file with f: {impl}")
            todo.append((case, impl, drv.ask(f"c19_select {t} custom")))
        out = drv.run()
        for case, impl, i in todo:
            if out[i] != impl:
                run.mismatch(case, impl, out[i])
    finally:
        shutil.rmtree(d, ignore_errors=True)


def check_calendar(run, rng, ndays):
    """Python's date arithmetic vs the model's daysFromCivil / validDate (trusted-base validation; raises on disagreement)"""
    drv, exp = Driver(), []
    d0 = datetime.date(1900, 1, 1)
    span = (datetime.date(2200, 12, 31) - d0).days
    days = set(rng.randrange(span + 1) for _ in range(ndays))
    for y in (1900, 1904, 2000, 2100, 2200, 2024, 1, 9999):
        for m, d in ((2, 28), (2, 29), (3, 1), (12, 31), (1, 1)):
            try:
                days.add((datetime.date(y, m, d) - d0).days)
            except ValueError:
                drv.ask(f"c19_valid {y} {m} {d}"); exp.append("false")
    for k in sorted(days):
        dd = d0 + datetime.timedelta(days=k)
        drv.ask(f"c19_days {dd.year} {dd.month} {dd.day}"); exp.append(str((dd - datetime.date(1970, 1, 1)).days))
        drv.ask(f"c19_valid {dd.year} {dd.month} {dd.day}"); exp.append("true")
    out = drv.run()
    bad = [(e, o) for e, o in zip(exp, out) if e != o]
    run.extra["calendar_days_validated"] = len(days)
    if bad:
        raise RuntimeError(f"Lean daysFromCivil/validDate disagree with Python's datetime on {len(bad)} dates: {bad[:3]}")


def check_float_text(run, rng, n):
    """trusted-base validation of the text model's numeral reader: Python's float(text) vs `ReaderText.pyFloat`
    (= Soft64.fl64 of the exact decimal value) on random numerals in every spelling; raises on disagreement"""
    drv, exp = Driver(), []
    for k in range(n):
        c = rng.random()
        if c < 0.3:
            t = _spell(rng, _coord(rng, -180, 180), 0.3)
        elif c < 0.5:       # 17+ significant digits, near-halfway cases included
            x = rng.uniform(-1000, 1000)
            t = "%.*f" % (rng.randint(10, 25), x)
        elif c < 0.7:
            t = "%d.%0*d" % (rng.randrange(1000), rng.randint(1, 12), rng.randrange(10 ** 6))
        elif c < 0.85:
            t = rng.choice(["%s%de%+d", "%s.%dE%d", "%s%d.e%d"]) % (rng.choice(["", "-", "+"]), rng.randrange(10 ** rng.randint(1, 18)), rng.randint(-30, 30))
        else:
            t = rng.choice([" 5.0 ", "\t-0.0", "1e22", "1e23", "9007199254740993", "0.1", "123456789012345678", "4.35", "2.675", ".5e1",
                            "5.", "+.5", "1e-7", "00012.50", "1_0", "", ".", "e5", "1e", "--1", "1.2.3", "0x10", "1 2"])
        try:
            want = frac(float(t))
        except ValueError:
            want = "ValueError"
        if t.strip().lower().lstrip("+-") in ("inf", "nan", "infinity") or "_" in t:
            continue        # outside the model's numeral grammar
        drv.ask("c19_float " + t.encode("latin-1").hex() if t else "c19_float 20")
        exp.append((t, want))
    out = drv.run()
    bad = [(t, w, o) for (t, w), o in zip(exp, out) if w != o]
    run.extra["float_numerals_validated"] = len(exp)
    if bad:
        raise RuntimeError(f"ReaderText.pyFloat disagrees with Python float() on {len(bad)} numerals: {bad[:3]}")


_NDK_BREAK = ["source-type", "moment-rate", "centroid-word", "depth-type", "stamp", "eleven-tensor-values", "latitude-text",
              "one-magnitude", "zero-moment", "time-second-65", "time-60.5"]


def check_ndk_malformed(run, rng, n):
    """NOT part of the property (the records are not well-formed): how `ndk` treats records it cannot parse - it warns
    and skips them, except an unparsable time, which raises - compared with `ReaderText.ndkGroup`.  Informational: a
    disagreement is recorded in the evidence, never reported as a violation."""
    import csep
    drv, todo = Driver(), []
    d = tempfile.mkdtemp(prefix="verif_c19m_")
    try:
        for k in range(n):
            spec = gen_ndk(rng, rng.randint(1, 4))
            recs = spec["recs"]
            j = rng.randrange(len(recs))
            how = rng.choice(_NDK_BREAK)
            L = list(recs[j]["text"])
            if how == "source-type":
                L[1] = L[1][:62] + "CMT: 3" + L[1][68:]
            elif how == "moment-rate":
                L[1] = L[1][:69] + "GAUSS:" + L[1][75:]
            elif how == "centroid-word":
                L[2] = "CENTROIX:" + L[2][9:]
            elif how == "depth-type":
                L[2] = L[2][:59] + "AUTO" + L[2][63:]
            elif how == "stamp":
                L[2] = L[2][:64] + "X-" + L[2][66:]
            elif how == "eleven-tensor-values":
                L[3] = L[3][:2] + " ".join(L[3][2:].split()[:11])
            elif how == "latitude-text":
                L[0] = L[0][:27] + " n/a  " + L[0][33:]
            elif how == "one-magnitude":
                L[0] = L[0][:48] + "5.0    " + L[0][55:]
            elif how == "zero-moment":
                L[4] = L[4][:49] + "  0.000" + L[4][56:]
            elif how == "time-second-65":
                L[0] = L[0][:22] + "65.4" + L[0][26:]
            else:
                L[0] = L[0][:22] + "60.5" + L[0][26:]
            recs = [dict(r) for r in recs]
            recs[j] = dict(recs[j], text=L)
            text = "\n".join("\n".join(r["text"]) for r in recs) + "\n"
            path = os.path.join(d, f"m{k}.ndk")
            with open(path, "w", newline="") as f:
                f.write(text)
            try:
                c = csep.load_catalog(path, type="ndk")
                got = "n=%d" % c.event_count
            except Exception as e:
                got = "raised"
            os.unlink(path)
            todo.append((how, got, len(recs), drv.ask("c19_text ndk " + text.encode("latin-1").hex())))
        out = drv.run()
        diff = []
        for how, got, nrec, i in todo:
            m = out[i]
            model = "raised" if m.startswith("err:") else ("n=%d" % (0 if m == "ok:" else m.count(";") + 1) if m.startswith("ok:") else m)
            run.count("ndk-malformed(informational):" + how + ":" + ("agree" if model == got else "DIFFER"))
            if model != got:
                diff.append(dict(how=how, records=nrec, implementation=got, model=model))
        run.extra["ndk_malformed_informational"] = dict(files=len(todo), disagreements=diff[:10])
    finally:
        shutil.rmtree(d, ignore_errors=True)


def _zero_spec(fmt):
    """one record with every value zero at the epoch: 1970-01-01T00:00:00(.0)(+0000), lon = lat = depth = magnitude = 0"""
    exp = [0, "0.0", "0.0", "0.0", "0.0"]
    z = _fr(0.0)
    if fmt == "csep-csv":
        rec = dict(text=["0.0", "0.0", "0.0", "1970-01-01T00:00:00.0", "0.0", "0", "0"], mod=[z, z, z, 1970, 1, 1, 0, 0, 0, 0, z], exp=exp)
        return dict(fmt=fmt, header=True, recs=[rec, dict(rec, text=["0", "0", "0", "1970-01-01T00:00:00", "0", "", ""])])
    if fmt == "zmap":
        cols = ["0.0", "0.0", "1970", "1", "1", "0.0", "0.0", "0", "0", "0"]
        return dict(fmt=fmt, sep=" ", recs=[dict(text=cols, mod=[_fr(c) for c in cols], exp=exp)])
    if fmt == "jma-csv":
        rec = dict(text=["1970-01-01T00:00:00.000+0000", "0.0", "0.0", "0.0", "0.0"], mod=[1970, 1, 1, 0, 0, 0, 0, 0, z, z, z, z], exp=exp)
        return dict(fmt=fmt, header=False, recs=[rec, dict(rec, text=["1969-12-31T23:30:00.0-00:30", "0", "0", "0", "0"],
                                                           mod=[1969, 12, 31, 23, 30, 0, 0, -1800, z, z, z, z])])
    if fmt == "ingv_horus":
        cols = ["1970", "1", "1", "0", "0", "0.0", "0.0", "0.0", "0.0", "0.0"]
        return dict(fmt=fmt, layout="compact", recs=[dict(text=cols, mod=[1970, 1, 1, 0, 0, z, z, z, z, z], exp=exp)])
    line1 = "PDE  1970/01/01 00:00:00.0   0.00    0.00   0.0 0.0 0.0 " + f"{'NOWHERE':<24}"
    sm_t, expo = "  1.000", 16                                 # M0 = 1e9 N m  ->  Mw = 2/3 (9 - 9.1)
    mw = 2.0 / 3.0 * (math.log10(float(sm_t) * (10 ** (expo - 7))) - 9.1)
    lines = [line1, _NDK_T[0], _NDK_T[1], f"{expo:2d}" + _NDK_T[2], _NDK_T[3] + sm_t + _NDK_T[4]]
    return dict(fmt=fmt, recs=[dict(text=lines, mod=[1970, 1, 1, 0, 0, 0, 0, z, z, z, _fr(mw)], exp=[0, "0.0", "0.0", "0.0", repr(mw)])])


def gen_session(rng):
    """script of a HISTORY on shared state: files of mixed formats at FIXED paths are written, loaded through random entry
    points, re-loaded, OVERWRITTEN with other content of the same format (half of the time with the same number of records)
    and loaded again; the caller changes a returned catalog in place in between"""
    fmts = [rng.choice(FORMATS) for _ in range(rng.randint(2, 4))]
    specs, script = [None] * len(fmts), []
    for step in range(rng.randint(5, 9)):
        j = rng.randrange(len(fmts))
        if specs[j] is None or rng.random() < 0.35:
            n = len(specs[j]["recs"]) if specs[j] and rng.random() < 0.5 else rng.randint(1, 6)
            sp = GEN[fmts[j]](rng, n)
            specs[j] = sp
            script.append(dict(op="write", file=j, spec=sp))
        script.append(dict(op="load", file=j, how=rng.choice(["type", "type", "loader", "class", "direct", "custom-loader", "format-csep"])))
        if rng.random() < 0.3:
            script.append(dict(op="edit-returned-catalog", file=j))
    return dict(fmts=fmts, script=script)


def run_session(ctx, sess, k):
    """every load must give the events of what the file holds at that moment; loading may not change the file"""
    run = ctx.run
    d = tempfile.mkdtemp(prefix="verif_c19s_")
    ext = {"csep-csv": "csv", "zmap": "dat", "jma-csv": "csv", "ingv_horus": "txt", "ndk": "ndk"}
    fmts = sess["fmts"]
    paths = [os.path.join(d, f"shared{j}." + ext[f]) for j, f in enumerate(fmts)]
    cur, texts, history, kept = [None] * len(fmts), [None] * len(fmts), [], []
    case = dict(tag="session", k=k, session=sess)
    try:
        for step, op in enumerate(sess["script"]):
            j = op["file"]
            fmt = fmts[j]
            name = os.path.basename(paths[j])
            if op["op"] == "write":
                cur[j] = op["spec"]
                texts[j], _ = build(cur[j])
                with open(paths[j], "w", newline="") as fh:
                    fh.write(texts[j])
                history.append(f"write {name} ({len(cur[j]['recs'])} records)")
                continue
            if op["op"] == "edit-returned-catalog":
                try:                                  # the caller edits a returned catalog in place; later loads must not see it
                    import csep
                    c = csep.load_catalog(paths[j], type=fmt)
                    c.catalog["magnitude"][:] = -77.0
                    c.catalog["origin_time"][:] = 1
                    kept.append(c)
                    history.append(f"caller overwrote the array of a catalog loaded from {name}")
                except Exception as e:
                    run.oracle_failure(case, f"{fmt}: loading {name} for the in-place edit raised {type(e).__name__}: {e}")
                continue
            how = op["how"]
            got = _loaded(paths[j], fmt, None, how, "csep-csv")
            history.append(f"load {name} via {how}")
            recs = cur[j]["recs"]
            want = [[int(r["exp"][0])] + [Fraction(float(x)) for x in r["exp"][1:]] for r in recs]
            run.case(dict(tag="session", k=k, step=step, fmt=fmt, how=how), f"session|{k}|{step}|{fmt}|{how}")
            run.count("session-step")
            ok = not isinstance(got, str) and len(got) == len(want) and all(
                (g[0] == w[0] or (r.get("tie") and abs(g[0] - w[0]) == 1) or _in_band(r, g[0]))
                and g[1:4] == w[1:4] and _mag_ok(fmt, g[4], w[4])
                for g, w, r in zip(got, want, recs))
            if not ok:
                run.oracle_failure(case, f"{fmt}: after the history {history[-5:]} the file's {len(want)} record(s) loaded as "
                                         f"{got if isinstance(got, str) else [_show(g) for g in got[:3]]}")
                return
            with open(paths[j], newline="") as fh:
                if fh.read() != texts[j]:
                    run.oracle_failure(case, f"{fmt}: loading changed the file on disk")
                    return
    finally:
        shutil.rmtree(d, ignore_errors=True)


def session(ctx, rng, k):
    run_session(ctx, gen_session(rng), k)


def run(run, rng, tier):
    ctx = Ctx(run)
    try:
        d = Driver()
        d.ask("c19_tables")
        check_tables(run, d.run()[0])
        check_selection(run)
        check_calendar(run, rng, 3000 if tier == "quick" else 110000)
        check_float_text(run, rng, 4000 if tier == "quick" else 60000)
        check_ndk_malformed(run, rng, 60 if tier == "quick" else 600)
        cdir = os.path.join(os.path.dirname(os.path.dirname(os.path.abspath(__file__))), "corpus", "C19")
        if os.path.isdir(cdir):
            for fn in sorted(os.listdir(cdir)):
                if fn.endswith(".json"):
                    check_case(ctx, json.load(open(os.path.join(cdir, fn)))["spec"], "corpus-" + fn)
        per = 560 if tier == "quick" else 12000   # rounds 5-6: 800 -> 560 (four >2^16-record files, more entry points)
        for fmt in FORMATS:
            for n in (1, 1, 2):                       # single-record files first (0-d array hazards)
                check_case(ctx, GEN[fmt](rng, n), "small")
            others = [f for f in FORMATS if f != fmt] + ["ingv_emrcmt"]
            for how in HOWS + (HOWS_NDK if fmt == "ndk" else []):      # every entry point once per format, first
                check_case(ctx, dict(GEN[fmt](rng, rng.choice([1, 2, 4])), how=how, other=rng.choice(others)), "entry")
            check_case(ctx, _zero_spec(fmt), "all-zero-record")
            for k in range(per):
                n = rng.choice([1, 2, 3, 5, 10, 20, 60, rng.randint(1, 60)])
                how = "type" if rng.random() < 0.5 else rng.choice(HOWS + (HOWS_NDK if fmt == "ndk" else []))
                extra = {}
                if k % 4 == 1:
                    extra["numstate"] = 2 + k % 5
                if k % 6 == 2:
                    extra["prelude"] = True
                check_case(ctx, dict(GEN[fmt](rng, n), tz=ZONES[k % len(ZONES)], eol="crlf" if k % 7 == 3 else "lf",
                                     how=how, other=rng.choice(others), **extra), "random")
            flush(ctx)
        # quick: the four line-oriented formats always, NDK (5 lines per record, 27 MB) in the thorough tier
        big = list(FORMATS) if tier != "quick" else [f for f in FORMATS if f != "ndk"]
        for fmt in big:                                   # more than 2^16 records (and not a multiple of 2^16)
            base = GEN[fmt](rng, rng.randint(150, 300))
            check_case(ctx, dict(base, tile=65536 + rng.randint(1, 700), how=rng.choice(["type", "loader", "direct"])),
                       "more-than-2^16-records", light=True)
            flush(ctx)
        for k in range(12 if tier == "quick" else 150):
            session(ctx, rng, k)
        flush(ctx)
        run.extra["local_zones_effective"] = sorted(z for z, ok in _ZONE_OK.items() if ok)
        dead = sorted(z for z, ok in _ZONE_OK.items() if not ok)
        if dead:
            run.assumptions.append(f"time zones {dead} are unknown to the C library here (local time stayed UTC under them)")
    finally:
        ctx.close()


def replay(run, payload):
    case = payload["case"]
    ctx = Ctx(run)
    try:
        if case.get("tag") == "tables":
            d = Driver(); d.ask("c19_tables"); check_tables(run, d.run()[0])
        elif case.get("tag") == "selection":
            check_selection(run)
        elif case.get("tag") == "session":
            run_session(ctx, case["session"], case.get("k", 0))
        else:
            check_case(ctx, case["spec"], "replay")
            flush(ctx)
    finally:
        ctx.close()
