"""Source tie (third tie of DESIGN §1.4): regenerate Lean definitions from the Python source of the tree under test
(harness/py2lean.py), re-check the theorems `Src.<f>_eq_model` (lean/PycsepVerif/Source/Cxx.lean) that each generated
definition equals the hand model, audit their axioms, and report per function

    proved-equal | definition-changed: <theorem> no longer checks … | proof-broken: … | untranslatable: <reason>

Called by harness/core.py inside the build lock: `pre_build` before the main `lake build` (the driver links GeneratedSrc),
`post_build(prop)` after it. A lost tie is NOT a violation (core prints SOURCE-TIE-LOST and lets the correspondence decide).
Results are cached by content hash, so an unchanged tree costs a few milliseconds.
"""
import hashlib
import json
import os
import re
import subprocess
import time

from . import py2lean, py2lean_sm

# the translators: expression-level (py2lean) and imperative / stateful (py2lean_sm). Each has its own generated file,
# namespace, theorem directory, prelude and driver module; everything below is done once per translator.
GENS = [
    dict(key="", mod=py2lean, gen="GeneratedSrc.lean", ns="Src", srcdir="Source", preludes=["PyPrelude.lean"],
         drive="Src"),
    dict(key="SM:", mod=py2lean_sm, gen="GeneratedSrcSM.lean", ns="SrcSM", srcdir="SourceSM",
         preludes=["PyPrelude.lean", "PyPreludeSM.lean"], drive="SrcSM"),
]
ALL_TARGETS = py2lean.TARGETS + py2lean_sm.TARGETS


def gen_of(t):
    return GENS[1] if any(t is x for x in py2lean_sm.TARGETS) else GENS[0]


def label_of(t):
    """key of a function in `coverage.source_tie` (several specialisations of one Python function carry a label)"""
    return t.get("label", t["func"])


ALLOWED_AXIOMS = {"propext", "Classical.choice", "Quot.sound"}
_BAD = re.compile(r"\b(sorry|admit|native_decide|bv_decide|implemented_by|unsafe)\b|^\s*axiom\s|maxHeartbeats\s+0", re.M)
AUDIT_VERSION = "3"     # part of the cache key: bump when the audit of _check_module changes
STATE = {}          # filled by pre_build: status per function, changed flag, seconds


def _run(cmd, cwd, timeout=1800):
    p = subprocess.run(cmd, cwd=cwd, stdout=subprocess.PIPE, stderr=subprocess.STDOUT, text=True, timeout=timeout)
    return p.returncode, p.stdout


def _sha(*parts):
    h = hashlib.sha256()
    for p in parts:
        h.update(p.encode() if isinstance(p, str) else p)
        h.update(b"\0")
    return h.hexdigest()


def _read(path):
    try:
        return open(path).read()
    except OSError:
        return ""


def _cache_path(lean_dir):
    return os.path.join(lean_dir, ".lake", "src_tie_cache.json")


def _load_cache(lean_dir):
    try:
        return json.load(open(_cache_path(lean_dir)))
    except (OSError, ValueError):
        return {}


def _save_cache(lean_dir, c):
    tmp = _cache_path(lean_dir) + f".{os.getpid()}"
    json.dump(c, open(tmp, "w"), indent=1)
    os.replace(tmp, _cache_path(lean_dir))


def _target(name):
    return next((t for t in ALL_TARGETS if t["lean"] == name), None)


def theorem_of(name):
    t = _target(name)
    return f"{gen_of(t)['ns'] if t else 'Src'}.{name}_eq_model"


def theorems_of(name):
    """every theorem the tie of one function needs: the equality, and the pin of its opaque nested helpers"""
    t = _target(name) or {}
    ns = gen_of(t)["ns"] if t else "Src"
    return [theorem_of(name)] + ([f"{ns}.{name}_helpers_pinned"] if t.get("local_defs_opaque") else [])


# ----------------------------------------------------------------------------- before the main build
def pre_build(repo, lean_dir):
    """regenerate GeneratedSrc.lean; if the new text does not compile (translator produced ill-typed Lean for a source it
    has not seen before) restore the previous text, so that the main build and the driver keep working, and report the
    changed functions as untranslatable."""
    t0 = time.time()
    info = dict(regenerated=False, functions={})
    for G in GENS:
        _pre_build_one(G, repo, lean_dir, info)
    info["pre_s"] = round(time.time() - t0, 2)
    STATE.clear()
    STATE.update(info)
    return info


def _pre_build_one(G, repo, lean_dir, info):
    gen = os.path.join(lean_dir, "PycsepVerif", G["gen"])
    changed, status, new, old = G["mod"].regenerate(repo, lean_dir, write=False)
    info["functions"].update(status)
    if changed:
        cache = _load_cache(lean_dir)
        key = _sha(new, *[_read(os.path.join(lean_dir, "PycsepVerif", p)) for p in G["preludes"]],
                   _read(os.path.join(lean_dir, "PycsepVerif", "Drive", G["drive"] + ".lean")))
        verdict = cache.get("compiles", {}).get(key)
        if verdict is None:
            with open(gen, "w") as f:
                f.write(new)
            rc, out = _run(["lake", "build", "PycsepVerif." + G["gen"][:-5], "PycsepVerif.Drive." + G["drive"]], lean_dir)
            verdict = "ok" if rc == 0 else "error: " + " | ".join(
                l.strip() for l in out.splitlines() if l.startswith("error:"))[:600]
            cache.setdefault("compiles", {})[key] = verdict
            if len(cache["compiles"]) > 200:
                cache["compiles"] = dict(list(cache["compiles"].items())[-100:])
            _save_cache(lean_dir, cache)
        if verdict == "ok":
            if _read(gen) != new:
                with open(gen, "w") as f:
                    f.write(new)
            info["regenerated"] = True
        else:
            old_blocks, new_blocks = py2lean.split_blocks(old), py2lean.split_blocks(new)
            if old is not None:
                with open(gen, "w") as f:
                    f.write(old)
            for name, st in status.items():
                if new_blocks.get(name) != old_blocks.get(name) and st["status"] == "ok":
                    st["status"] = "untranslatable"
                    st["reason"] = "the generated Lean does not compile (kept the previous definition): " + verdict
                    st["stale"] = True


# ----------------------------------------------------------------------------- after the main build
def functions_of(prop):
    return [t for t in ALL_TARGETS if t["prop"] == prop or prop in t.get("also", [])]


def _module_key(lean_dir, owner, G=GENS[0]):
    d = os.path.join(lean_dir, "PycsepVerif")
    parts = [_read(os.path.join(d, G["srcdir"], f"{owner}.lean")), _read(os.path.join(d, G["gen"]))] + \
            [_read(os.path.join(d, p)) for p in G["preludes"]] + [_read(os.path.join(lean_dir, "lean-toolchain"))]
    meta = []
    for root, _, files in os.walk(d):
        if os.sep + "Source" in root:       # Source/ and SourceSM/
            continue
        for f in sorted(files):
            if f.endswith(".lean"):
                st = os.stat(os.path.join(root, f))
                meta.append(f"{os.path.relpath(os.path.join(root, f), d)}:{st.st_size}:{st.st_mtime_ns}")
    return _sha(*parts, "\n".join(sorted(meta)), AUDIT_VERSION)


def _check_module(lean_dir, owner, names, G=GENS[0]):
    """build Source/<owner>.lean and audit `Src.<f>_eq_model` for f in names -> {name: (ok, detail)}"""
    SD = G["srcdir"]
    path = os.path.join(lean_dir, "PycsepVerif", SD, f"{owner}.lean")
    if not os.path.exists(path):
        return {n: (False, f"no module {SD}/{owner}.lean") for n in names}
    src = _read(path)
    res = {}
    m = _BAD.search(re.sub(r"--.*", "", re.sub(r"/-.*?-/", "", src, flags=re.S)))
    if m:
        return {n: (False, f"forbidden construct {m.group(0).strip()!r} in {SD}/{owner}.lean") for n in names}
    rc, out = _run(["lake", "build", f"PycsepVerif.{SD}.{owner}"], lean_dir)
    tmp = os.path.join(lean_dir, ".lake", f"srctie_{SD}_{owner}_{os.getpid()}.lean")
    if rc == 0:
        with open(tmp, "w") as f:
            f.write(f"import PycsepVerif.{SD}.{owner}\n" +
                    "".join(f"#print axioms {th}\n" for n in names for th in theorems_of(n)))
        errs = {}
    else:
        # the module does not build: elaborate a copy (Lean recovers after a failed proof) to see WHICH theorems fail
        with open(tmp, "w") as f:
            f.write(src + "\n" + "".join(f"#print axioms {th}\n" for n in names for th in theorems_of(n)))
        errs = {}
        for mm in re.finditer(r"^error: \S*%s/%s\.lean:(\d+):\d+: (.*)$" % (SD, owner), out, re.M):
            errs[int(mm.group(1))] = mm.group(2)[:160]
    rc2, out2 = _run(["lake", "env", "lean", tmp], lean_dir)
    os.unlink(tmp)
    flat = re.sub(r"\s+", " ", out2)
    # line -> enclosing theorem, to name the lemma that broke
    src_lines = src.splitlines()

    def decl_start(i):
        """0-based index of the first line of the declaration whose keyword is on line i: Lean reports some errors at the
        start of the declaration, which includes its doc comment and attributes"""
        j = i
        while j > 0 and src_lines[j - 1].strip().startswith("@["):
            j -= 1
        if j > 0 and src_lines[j - 1].rstrip().endswith("-/"):
            k = j - 1
            while k >= 0 and "/--" not in src_lines[k]:
                if "/-" in src_lines[k] and "/--" not in src_lines[k]:
                    return j        # an ordinary comment, not a doc comment
                k -= 1
            if k >= 0:
                j = k
        return j
    decl_lines = [(decl_start(i) + 1, mm.group(1)) for i, l in enumerate(src_lines)
                  for mm in [re.match(r"\s*(?:private\s+|protected\s+)?(?:theorem|lemma)\s+(\S+)", l)] if mm]
    def enclosing(line):
        best = None
        for ln, nm in decl_lines:
            if ln <= line:
                best = nm
        return best
    # errors Lean reports while elaborating the copy count as well (same line numbers: the source comes first)
    for mm in re.finditer(r"^\S*srctie_%s_\d+\.lean:(\d+):\d+: error: (.*)$" % owner, out2, re.M):
        errs.setdefault(int(mm.group(1)), mm.group(2)[:160])
    broken = sorted({enclosing(l) for l in errs if enclosing(l)})
    if broken:
        # a declaration that mentions a broken one is broken too (Lean's error recovery can add a declaration whose statement
        # did not typecheck, and what uses it then elaborates without error): closure over the text of the declarations
        lines_ = src.splitlines()
        seg = {}
        for k_, (ln, nm) in enumerate(decl_lines):
            end = decl_lines[k_ + 1][0] - 1 if k_ + 1 < len(decl_lines) else len(lines_)
            seg[nm] = "\n".join(lines_[ln - 1:end])
        bset, grew = set(broken), True
        while grew:
            grew = False
            for nm, text in seg.items():
                if nm not in bset and any(re.search(r"(?<![\w.'])" + re.escape(b.split(".")[-1]) + r"(?![\w'])", text) for b in bset):
                    bset.add(nm)
                    grew = True
        first_err = errs[min(errs)]
        for nm in sorted(bset - set(broken)):
            ln = next(l for l, n_ in decl_lines if n_ == nm)
            errs.setdefault(ln, f"uses a declaration that no longer checks ({', '.join(broken)}: {first_err})")
        broken = sorted(bset)
    for n in names:
        res[n] = (True, theorem_of(n))
        for th in theorems_of(n):
            # an error inside the theorem itself (statement or proof): Lean's error recovery may still add the declaration
            # (a statement that does not typecheck is elaborated with a placeholder and `#print axioms` can come out clean)
            if th.split(".")[-1] in broken:
                line = min(l for l in errs if enclosing(l) == th.split(".")[-1])
                res[n] = (False, f"{th} no longer checks (failing proof: {th.split('.')[-1]}: {errs[line]})")
                break
            mm = re.search(r"'" + re.escape(th) + r"' (does not depend on any axioms|depends on axioms: \[([^\]]*)\])", flat)
            if not mm:
                res[n] = (False, f"{th} is missing or does not elaborate" +
                          (f" (failing: {', '.join(broken)})" if broken else ""))
                break
            ax = set(a.strip() for a in (mm.group(2) or "").split(",") if a.strip())
            if ax - ALLOWED_AXIOMS:
                why = f"{th} no longer checks"
                if "sorryAx" in ax and broken:
                    why += f" (failing proof: {', '.join(broken)}: {errs[min(errs)]})"
                elif ax - ALLOWED_AXIOMS - {"sorryAx"}:
                    why += f" (axioms {sorted(ax - ALLOWED_AXIOMS)})"
                res[n] = (False, why)
                break
    return res


def post_build(prop, lean_dir):
    """-> dict(functions={python name: verdict}, proved=[theorems], obligations=int, lost=[(function, reason)], seconds)"""
    t0 = time.time()
    status = STATE.get("functions") or {}
    targets = functions_of(prop)
    out = dict(functions={}, proved=[], obligations=0, lost=[], regenerated=STATE.get("regenerated", False))
    if not targets:
        out["seconds"] = 0.0
        return out
    cache = _load_cache(lean_dir)
    digests = {}
    for G in GENS:
        digests.update(py2lean.defs_digest(_read(os.path.join(lean_dir, "PycsepVerif", G["gen"]))))
    by_owner = {}
    for t in targets:
        # the theorem module of a function: Source*/<owning property>.lean unless TARGETS names another one (`module`), so that
        # one property can keep independent ties in separate files (a lost tie of one does not take the other with it)
        by_owner.setdefault((gen_of(t)["key"], t.get("module", t["prop"])), []).append(t)
    dirty = False
    for (gkey, owner), ts in by_owner.items():
        G = next(g for g in GENS if g["key"] == gkey)
        names = [t["lean"] for t in ts]
        key = _module_key(lean_dir, owner, G) + ":" + ",".join(names)
        ent = cache.get("modules", {}).get(gkey + owner)
        if ent is None or ent.get("key") != key:
            res = _check_module(lean_dir, owner, names, G)
            ent = dict(key=key, res={n: list(v) for n, v in res.items()})
            cache.setdefault("modules", {})[gkey + owner] = ent
            dirty = True
        for t in ts:
            n, py = t["lean"], label_of(t)
            st = status.get(n, {})
            out["obligations"] += 1
            ok, detail = ent["res"].get(n, (False, "not checked"))
            last = cache.get("proved_digest", {}).get(n)
            if st.get("status") != "ok":
                verdict = "untranslatable: " + st.get("reason", "?")
            elif ok:
                verdict = "proved-equal"
                out["proved"].append(detail)
                if last != digests.get(n):
                    cache.setdefault("proved_digest", {})[n] = digests.get(n)
                    dirty = True
            elif last is not None and last == digests.get(n):
                verdict = "proof-broken: " + detail + " (generated definition unchanged)"
            else:
                verdict = "definition-changed: " + detail
            out["functions"][py] = verdict
            if verdict != "proved-equal":
                out["lost"].append((py, verdict))
    if dirty:
        _save_cache(lean_dir, cache)
    out["seconds"] = round(time.time() - t0 + STATE.get("pre_s", 0), 2)
    return out


# ----------------------------------------------------------------------------- executable tie of the SM functions
def _install_exec_tie():
    """harness/core.py runs `src_tie.run_src_tie` for the functions of py2lean.TARGETS; the functions of
    py2lean_sm.TARGETS are run right after it by harness/src_tie_sm.py (same contract: a disagreement is a lost tie)."""
    from . import src_tie, src_tie_sm
    if getattr(src_tie.run_src_tie, "_with_sm", False):
        return
    orig = src_tie.run_src_tie

    def run_src_tie(run, rng, tier, prop, functions=None):
        out = list(orig(run, rng, tier, prop, functions) or [])
        verdicts = run.extra.get("source_tie", {})
        names = [t["lean"] for t in py2lean_sm.TARGETS if (t["prop"] == prop or prop in t.get("also", []))
                 and label_of(t) in verdicts and not verdicts[label_of(t)].startswith("untranslatable")]
        if names:
            by_lean = {t["lean"]: label_of(t) for t in py2lean_sm.TARGETS}
            out += [(by_lean[n], why) for n, why in src_tie_sm.run_src_tie_sm(run, rng, tier, prop, names)]
        return out
    run_src_tie._with_sm = True
    src_tie.run_src_tie = run_src_tie


_install_exec_tie()
