"""C17 — quadtree grids: correspondence of csep.core.regions (QuadtreeGrid2D, _create_tile, _create_tile_fix_len,
quadtree_grid_bounds, get_index_of, get_cell_area) with Model/Quadtree.lean + direct oracle in exact dyadic arithmetic."""
import bisect
import math
import os
from fractions import Fraction

import numpy

from .core import Driver, frac, next_down, next_up

LEVEL_TEXT = ("Proof: four children partition their parent (half-open, west/south inclusive); hence the leaves of the "
              "catalog-driven recursion and the 4^z single-resolution tiles partition lon [-180,180) x Web-Mercator "
              "latitudes for EVERY catalog, threshold, zoom and depth (induction on the recursion, unbounded); leaf "
              "count <= threshold or depth = zoom; every split ancestor had count > threshold; counts add; "
              "_find_location returns the first containing cell, the unique one for prefix-free keys, none otherwise; "
              "corner/edge ownership; areas add up to the band area for any sin-latitude function. Tied to the code by "
              "a correspondence on leaf lists, counts, located indices, bounds and areas over single-resolution grids, "
              "catalog-refined grids, random key sets and the shipped California grid. Cartesian view (get_cartesian, "
              "spatial_counts(cartesian=True)): entry (j,i) is the value of the cell containing the lattice point (i-th "
              "distinct west edge, j-th distinct south edge); on prefix-free grids every cell's value sits at its own "
              "south-west corner; it raises exactly when a lattice point lies in no cell and never on a grid that covers "
              "the domain (proved for every from_catalog and single-resolution grid). Round 3: the latitude is no longer "
              "abstract - mercantile's degrees(atan(sinh(pi(1-2y)))) is instantiated over the reals and PROVED strictly "
              "decreasing, within (-90,90), odd about the equator, with sin(lat)=tanh(pi(1-2y)); every real (lon,lat) query is "
              "reduced to the dyadic test and to any rational representative of its deepest cell (representative_sound, "
              "locate_real); geographical_area_from_bounds is modelled code-shaped (both branches) and proved equal to the "
              "spherical closed form, so the cells of every from_catalog / single-resolution grid sum to 4 pi R^2 sin(latmax); "
              "longitude edges and the argument of the latitude chain are exact in binary64 for every zoom <= 40 by theorem; "
              "arbitrary user key lists: the first listed ancestor-or-self of the point's deepest key answers, cells listed "
              "after an ancestor are dead; get_bbox of every covering grid is the whole domain; save_quadtree/from_quadkeys "
              "text round trip; origins located in their own cells. Phase 2: get_masked (D42) is True exactly where no cell "
              "contains the point, agrees with _find_location / get_index_of, and filter_spatial is the filter by 'is located' "
              "(idempotent, order preserving, located indices unchanged). Round 4: the refinement criterion is proved on what the "
              "gridding API reports: spatial_counts() of the building catalog bound to the finished grid equals, cell by cell, the num "
              "list _create_tile recorded (two different code paths: refinement test vs _find_location + add.at; any catalog, threshold, "
              "zoom, boundary events and duplicates included), hence every entry is <= threshold or its cell is at the maximum zoom, "
              "every strict ancestor of a listed cell held more than threshold events, and every event of the domain has a cell. "
              "Coverage of ARBITRARY prefix-free key lists (from_quadkeys, key files) is decided by a theorem: such a list covers the "
              "domain iff sum 4^-len(key) = 1 (Kraft's equality; counting the keys of the deepest level, double counting, no size bound), "
              "it is then a partition and _find_location finds a cell exactly for the points of the domain; sum <= 1 always. "
              "The float box test of the code (lon >= west and lat >= south and lon < east and lat < north against mercantile's "
              "bounds) is PROVED to be the model's tile membership for every tile of depth <= D from the finite, strictly decreasing "
              "edge-latitude table of depth D and the row placement of the point's latitude (box_test_iff_inTile, find_location_float); "
              "with it the hypothesis `hin` of the source tie of _create_tile is discharged (SrcSM.create_tile_eq_model_mercantile). "
              "Builds are run under a structural work bound computed from the model's tile count (a runaway refinement is cut off and "
              "reported with its input).")
LEVEL_NOTE = ("Theorems about the latitude are over the reals; the float evaluation of pi*x, sinh, atan, degrees by libm is not "
              "modelled beyond determinism (the float latitude of an edge is proved to depend on the dyadic coordinate only; "
              "strict monotonicity of the float edge table is re-checked every run; the Lean Float transcription of the formula "
              "is compared bit for bit with mercantile's bounds on every run). The decimal value 85.0511287798066 of "
              "degrees(atan(sinh(pi))) is compared numerically (1e-12), not proved. The model receives a point's latitude as "
              "the tile row it falls in at the deepest level, found by float comparisons against mercantile's own edge "
              "latitudes (soundness of any representative of that row: theorem representative_sound).")
DESIGN_REF = "DESIGN.md §4 C17"

THEOREMS = ["Quadtree.geo_membership", "Quadtree.lon_bounds_exact", "Quadtree.root_domain", "Quadtree.children_partition", "Quadtree.counts_add",
            "Quadtree.single_resolution_partition", "Quadtree.single_resolution_unique",
            "Quadtree.single_resolution_disjoint", "Quadtree.single_resolution_size",
            "Quadtree.refine_partition", "Quadtree.from_catalog_partition", "Quadtree.from_catalog_disjoint",
            "Quadtree.refine_counts", "Quadtree.refine_leaf_bound", "Quadtree.from_catalog_leaf_bound",
            "Quadtree.refine_no_needless_split", "Quadtree.split_nodes_criterion", "Quadtree.fuel_irrelevant",
            "Quadtree.locate_spec", "Quadtree.overlap_iff_nested", "Quadtree.get_index_of_length",
            "Quadtree.prefix_free_of_partition", "Quadtree.from_catalog_prefix_free",
            "Quadtree.single_resolution_prefix_free", "Quadtree.from_catalog_locate",
            "Quadtree.single_resolution_complete",
            "Quadtree.corner_ownership", "Quadtree.area_additive", "Quadtree.area_from_catalog",
            "Quadtree.area_single_resolution",
            # Cartesian view (Properties/C17_Cartesian.lean)
            "Quadtree.cartesian_axes", "Quadtree.cartesian_entry", "Quadtree.cartesian_ok_iff",
            "Quadtree.cartesian_error_no_cell", "Quadtree.cartesian_places_cells", "Quadtree.cartesian_total_of_cover",
            "Quadtree.cartesian_total_from_catalog", "Quadtree.cartesian_total_single_resolution",
            # real Mercator geometry, code-shaped area, float exactness by theorem (Properties/C17_Mercator.lean)
            "Quadtree.mercator_strictAnti", "Quadtree.mercator_range_and_limits", "Quadtree.mercator_geo_membership",
            "Quadtree.mercator_every_latitude", "Quadtree.mercator_membership_real", "Quadtree.real_test_on_rational_points",
            "Quadtree.representative_sound", "Quadtree.locate_real", "Quadtree.geo_area_formula",
            "Quadtree.tile_area_code_shaped", "Quadtree.tile_area_pos", "Quadtree.area_total_from_catalog",
            "Quadtree.area_total_single_resolution", "Quadtree.lon_bounds_exact_all", "Quadtree.lat_arg_exact",
            "Quadtree.lat_arg_depends_on_unit_coordinate", "Quadtree.quadkeys_text_roundtrip", "Quadtree.origin_own_cell",
            # arbitrary key sets, bounding box (Properties/C17_Keysets.lean)
            "Quadtree.inTile_iff_prefix_keyOf", "Quadtree.locate_first_prefix", "Quadtree.shadowed_cell_never_returned",
            "Quadtree.bbox_of_cover", "Quadtree.bbox_from_catalog", "Quadtree.bbox_single_resolution",
            # get_masked / filter_spatial on quadtree grids (D42; Properties/C17_Masked.lean)
            "Quadtree.get_masked_spec", "Quadtree.get_masked_agrees_with_locate", "Quadtree.filter_spatial_eq_filter",
            "Quadtree.filter_spatial_spec", "Quadtree.get_masked_from_catalog",
            # the refinement criterion read off the gridding API on the finished grid (Properties/C17_Gridding.lean)
            "QuadGridding.from_catalog_self_counts", "QuadGridding.from_catalog_self_leaf_bound",
            "QuadGridding.from_catalog_self_split_needed", "QuadGridding.from_catalog_self_all_located_iff",
            # coverage of ARBITRARY prefix-free key lists: Kraft's equality (Properties/C17_Cover.lean)
            "Quadtree.prefix_free_cover_iff_kraft", "Quadtree.kraft_le_one", "Quadtree.prefix_free_cover_iff_kraft_rat",
            "Quadtree.prefix_free_partition_of_kraft", "Quadtree.locate_total_of_kraft",
            # the code's float box test against mercantile's bounds is the model's membership (Properties/C17_Box.lean)
            "Quadtree.placed_consistent", "Quadtree.edge_indices", "Quadtree.box_test_iff_inTile", "Quadtree.find_location_float"]
TRUSTED = ["Lean 4.33 kernel", "axioms: propext, Classical.choice, Quot.sound at most",
           "mercantile 1.2.1: quadkey_to_tile is the bit interleaving modelled by tileX/tileY; bounds().west/east equal "
           "-180+360*X/2^z exactly (checked on every tile of every generated grid); the latitude of a tile edge depends on "
           "Y/2^z only, is strictly decreasing in it (checked on every generated edge table) and is bit-identical between "
           "zoom levels (checked)",
           "the latitude of a point enters the model as the deepest-level row it falls in, computed by the harness with "
           "float comparisons against mercantile.bounds edges (the same comparisons the library makes); that this placement makes "
           "the code's four float comparisons against a tile's bounds equal the model's membership is no longer trusted: theorem "
           "box_test_iff_inTile from (i) the strictly decreasing edge table (re-checked every run), (ii) bounds = exact dyadic "
           "longitudes + table entries (checked on every tile), (iii) the row the harness computed (E[r+1] <= lat < E[r])",
           "numpy comparison / logical_and / where semantics", "Float tanh/π for the model-side area (compared at 1e-9)",
           "libm cos / sinh / atan behind Lean's Float and numpy / math (code-shaped Float area compared at 1e-9 relative plus a "
           "cancellation-aware absolute term; Mercator bounds compared exactly in longitude, 1e-12 in latitude, bit-exact count "
           "reported)", "numpy.savetxt / genfromtxt line handling (one key per line)",
           "harness/c17.py generators and comparison; driver parsing (Proto.lean, Drive/C17.lean)"]
RULE = ("grids: from_single_resolution(z) z=1..7 (8 in thorough), from_catalog over kind in {uniform, clustered, "
        "boundary} x threshold in {0,1,5,50} x zoom 1..9, random prefix-free (and a few nested) key sets through "
        "from_quadkeys, the shipped California zoom-12 grid; queries: tile corners, edge midpoints, interior points, "
        "one-ulp neighbours of edges, lon +-180, lat at and beyond +-85.0511287798066; a case (grid or grid x query "
        "batch) is non-trivial when the grid has cells at >= 2 depths or >= 16 cells and the batch has a point on a "
        "tile edge; distinct by (grid construction parameters, batch); the Cartesian view of every grid with "
        "(#distinct west edges x #distinct south edges x #cells) <= 3e6 (2e7 thorough) incl. gridded forecasts on it; "
        "ordered lookup sequences on one region object (a point inside tile A, then points exactly on A's east / north "
        "edge and corners, as repeated scalar calls and as list / ndarray calls, forwards, reversed, shuffled): the cell of "
        "a point must be its per-point containment whatever was looked up before; on every grid additionally origins() / "
        "midpoints() / to_dict() / get_location_of / get_bbox / save_quadtree -> genfromtxt -> from_quadkeys and the Mercator "
        "bounds + cell areas recomputed by the code-shaped Lean Float functions (40 sampled cells); key sets containing the "
        "root key '' and constructors called with magnitudes= / name=; geographical_area_from_bounds on 400 (4000) ordered "
        "bounds: degenerate (equal longitudes / latitudes), polar, 1e-6 degree cells, Mercator tiles of zoom 1..14, full "
        "longitude span; get_masked (list / ndarray / scalar) and catalog.filter_spatial(region, in_place both ways) on the "
        "query batches incl. NaN / infinite coordinates; sessions of 14 (30) random public calls on ONE region object "
        "(lookups as float / int / arrays, get_masked, get_cartesian, get_bbox, get_cell_area, origins, midpoints, to_dict, "
        "get_location_of, interleaved with in-place edits by the caller of the arrays / dictionaries handed out earlier), every "
        "step compared with what a fresh region answers, bounds / quadkeys unchanged at the end; one (three) grids of more than "
        "2^16 cells with queries in cells of index > 65535; from_catalog with the default zoom (argument not passed); on every "
        "from_catalog grid the building catalog is bound to the grid and gridded through the catalog API (spatial_counts, "
        "spatial_event_probability, get_spatial_idx, spatial_magnitude_counts) against the exact recount per leaf, the threshold "
        "and the model op c17_selfcount")

R_KM = 6371.0
LATMAX = 85.0511287798066


# ----------------------------------------------------------------------------- exact side (harness arithmetic)
_edges_cache = {}


def edges(D):
    """E[j] = latitude of the horizontal line y = j/2^D, j = 0..2^D, from mercantile's own bounds (decreasing)"""
    if D not in _edges_cache:
        import mercantile
        n = 1 << D
        E = [mercantile.bounds(0, j, D).north for j in range(n)] + [mercantile.bounds(0, n - 1, D).south]
        _edges_cache[D] = (E, [-e for e in E])
    return _edges_cache[D]


def check_edge_tables(run, D):
    """trusted-base validation: strictly decreasing, and bit-identical across zoom levels"""
    import mercantile
    E, _ = edges(D)
    if any(not (E[j] > E[j + 1]) for j in range(len(E) - 1)):
        raise RuntimeError(f"mercantile edge latitudes at depth {D} are not strictly decreasing")
    for d in range(0, D):
        Ed, _ = edges(d)
        sh = D - d
        if any(Ed[j] != E[j << sh] for j in range(len(Ed))):
            raise RuntimeError(f"mercantile edge latitudes differ between zoom {d} and zoom {D}")
    run.extra.setdefault("edge_tables_checked", [])
    if D not in run.extra["edge_tables_checked"]:
        run.extra["edge_tables_checked"].append(D)


def qt_bounds(r):
    """rows (west, south, east, north) of a quadtree region as a float array: the region's own `bounds` array, or — should a rewrite
    keep it under another name — the tiles of its quadkeys from mercantile (the structure check compares the two anyway)"""
    b = getattr(r, "bounds", None)
    if b is None:
        import mercantile
        rows = []
        for k in r.quadkeys:
            t = mercantile.bounds(mercantile.quadkey_to_tile(str(k)))
            rows.append((t.west, t.south, t.east, t.north))
        b = numpy.array(rows, dtype=float).reshape(-1, 4)
    return numpy.asarray(b, dtype=float)


def key_xy(k):
    """(X, Y, z) of a quadkey string, by bit interleaving (independent of mercantile)"""
    X = Y = 0
    for c in k:
        d = int(c)
        X = 2 * X + (d & 1)
        Y = 2 * Y + (d >> 1)
    return X, Y, len(k)


def to_unit(lon, lat, D):
    """exact unit-square coordinates handed to the model: x = (lon+180)/360 exactly; y = a representative of the
    depth-D row the latitude falls in (south edge inclusive), 0/-1 north of the limit, 2 south of it"""
    E, negE = edges(D)
    lon = float(lon)
    if lon != lon or lon in (math.inf, -math.inf):
        return Fraction(5), Fraction(3)        # NaN / infinite longitude: every comparison is False, in no cell
    x = (Fraction(lon) + 180) / 360
    lat = float(lat)
    n = 1 << D
    if lat != lat:
        return x, Fraction(3)
    if lat >= E[0]:
        return x, (Fraction(0) if lat == E[0] else Fraction(-1))
    if lat < E[n]:
        return x, Fraction(2)
    # number of edges strictly greater than lat
    g = bisect.bisect_left(negE, -lat)   # negE increasing; entries < -lat  <=> E > lat
    r = g - 1                            # row: E[r] > lat >= E[r+1]
    if lat == E[r + 1]:
        return x, Fraction(r + 1, n)
    return x, Fraction(2 * r + 1, 2 * n)


def unit_key(x, y, D):
    """depth-D quadkey of the unit point, or None when outside [0,1) x (0,1]"""
    if not (0 <= x < 1 and 0 < y <= 1):
        return None
    n = 1 << D
    X = math.floor(x * n)
    Y = math.ceil(y * n) - 1
    return "".join(str(((X >> i) & 1) + 2 * ((Y >> i) & 1)) for i in range(D - 1, -1, -1))


def pts_arg(units):
    return ";".join(f"{frac(x)},{frac(y)}" for x, y in units) if units else "-"


def hexs(v):
    return float(v).hex()


# ----------------------------------------------------------------------------- one grid
class Grid:
    def __init__(self, kind, params, region, keys):
        self.kind, self.params, self.region = kind, params, region
        self.keys = [str(k) for k in keys]
        self.D = max([len(k) for k in self.keys] + [1])


class Runaway(Exception):
    """the implementation was cut off: it did far more work than the refinement rule allows for this input"""


def expected_refinement(thr, zoom, ev):
    """what the refinement RULE (the model `Quadtree.fromCatalog`: split while count > threshold and depth < zoom, four roots)
    creates for these epicentres: (number of leaves, number of visited tiles = leaves + split tiles). Exact: events are placed by
    their deepest-level key, counts are prefix counts."""
    D = max(zoom, 1)
    cnt = {}
    for lo, la in ev:
        d = unit_key(*to_unit(lo, la, D), D)
        if d is not None:
            for L in range(1, len(d) + 1):
                cnt[d[:L]] = cnt.get(d[:L], 0) + 1
    leaves = nodes = 0
    stack = ["0", "1", "2", "3"]
    while stack:
        k = stack.pop()
        nodes += 1
        if cnt.get(k, 0) > thr and len(k) < zoom:
            stack += [k + c for c in "0123"]
        else:
            leaves += 1
    return leaves, nodes


import contextlib


@contextlib.contextmanager
def bounded_work(nodes, leaves, what):
    """Run a builder of the tree under test with a STRUCTURAL bound on its work, derived from what the model says the correct code
    creates (`nodes` visited tiles, `leaves` cells): every `mercantile.bounds` call is counted (the current code makes one per
    visited tile and four per cell) and the build is cut off — `Runaway` — beyond 4x that number (+2000); as a second line, for a
    rewrite that does not go through `mercantile.bounds`, a CPU-time timer of the process (ITIMER_VIRTUAL: machine load does not
    advance it) scaled from the same count, 20x the cost of the current code and never below 15 s."""
    import signal
    import threading
    import mercantile
    limit = 4 * (nodes + 4 * leaves) + 2000
    cpu_s = 15.0 + 20 * 2e-4 * (nodes + 4 * leaves)
    orig = mercantile.bounds
    calls = [0]

    def counted(*a, **k):
        calls[0] += 1
        if calls[0] > limit:
            raise Runaway(f"{what}: more than {limit} tile-bounds computations where the refinement rule visits {nodes} tiles and "
                          f"creates {leaves} cells (cut off)")
        return orig(*a, **k)
    mercantile.bounds = counted
    timer = threading.current_thread() is threading.main_thread() and hasattr(signal, "setitimer")
    if timer:
        def on_alarm(sig, frame):
            raise Runaway(f"{what}: not finished after {cpu_s:.0f} s of CPU time where the refinement rule visits {nodes} tiles and "
                          f"creates {leaves} cells (cut off)")
        old = signal.signal(signal.SIGVTALRM, on_alarm)
        signal.setitimer(signal.ITIMER_VIRTUAL, cpu_s)
    try:
        yield calls
    finally:
        mercantile.bounds = orig
        if timer:
            signal.setitimer(signal.ITIMER_VIRTUAL, 0)
            signal.signal(signal.SIGVTALRM, old)


_SUBCLASSES = {}
COPY_UNSUPPORTED = {}       # (class, form) -> reason: copy forms the tree under test cannot apply to an object (left out, counted)
POISON_KINDS = ("zoom-str", "zoom-none", "threshold-str", "catalog-none", "single-str", "quadkeys-bad")


def _user_catalog_class(which):
    """(j) catalogs of a USER SUBCLASS that overrides the documented accessors consistently; the accessors are the source of truth.
    `negated`: the file stores longitude and latitude with the opposite sign; `lon360`: longitudes stored in the 0..360 convention"""
    if which not in _SUBCLASSES:
        from csep.core.catalogs import CSEPCatalog
        if which == "negated":
            class NegatedCoordinatesCatalog(CSEPCatalog):
                def get_longitudes(self):
                    return -self.catalog['longitude']

                def get_latitudes(self):
                    return -self.catalog['latitude']
            _SUBCLASSES[which] = NegatedCoordinatesCatalog
        else:
            class Longitude360Catalog(CSEPCatalog):
                def get_longitudes(self):
                    lo = self.catalog['longitude']
                    return numpy.where(lo > 180.0, lo - 360.0, lo)       # 180 itself is not wrapped
            _SUBCLASSES[which] = Longitude360Catalog
    return _SUBCLASSES[which]


def _building_catalog(ev, subclass):
    from csep.core.catalogs import CSEPCatalog
    if subclass == "negated":
        rows = [(str(i), 1000 * i, -la, -lo, 5.0, 4.0) for i, (lo, la) in enumerate(ev)]
        cat = _user_catalog_class("negated")(data=rows, compute_stats=False)
    elif subclass == "lon360":
        rows = []
        for i, (lo, la) in enumerate(ev):
            # stored in 0..360 only where the accessor gives the real longitude back EXACTLY (and never for +-180 themselves)
            raw = lo + 360.0 if (-180.0 < lo < 0 and lo + 360.0 > 180.0 and (lo + 360.0) - 360.0 == lo) else lo
            rows.append((str(i), 1000 * i, la, raw, 5.0, 4.0))
        cat = _user_catalog_class("lon360")(data=rows, compute_stats=False)
    else:
        cat = None
    if cat is not None:
        # the accessors are the source of truth: they must return exactly the epicentres the expectation is computed from
        # (bit for bit, signed zeros and subnormals included); otherwise this catalog is not a valid instance of the class
        glo, gla = numpy.asarray(cat.get_longitudes(), dtype=float), numpy.asarray(cat.get_latitudes(), dtype=float)
        want_lo, want_la = numpy.array([e[0] for e in ev], dtype=float), numpy.array([e[1] for e in ev], dtype=float)
        if glo.shape == want_lo.shape and numpy.array_equal(glo, want_lo, equal_nan=True) and numpy.array_equal(gla, want_la, equal_nan=True):
            return cat
    return CSEPCatalog(data=[(str(i), 1000 * i, la, lo, 5.0, 4.0) for i, (lo, la) in enumerate(ev)], compute_stats=False)


def poison_call(kind):
    """(i) a builder call the library REJECTS, made and caught before the judged build: whatever it left behind (module-level
    collectors, half-built state) must not show in the next grid. A tree that accepts the call is fine too: the result is dropped."""
    from csep.core import regions
    ev = [(10.0, -10.0), (10.0, -10.0), (100.0, -50.0), (-100.0, -20.0), (20.0, 30.0), (-30.0, 40.0)]    # all four root tiles
    cat = _building_catalog(ev, None)
    try:
        with bounded_work(400, 300, "rejected builder call"):
            if kind == "zoom-str":
                regions.QuadtreeGrid2D.from_catalog(cat, 0, zoom='8')
            elif kind == "zoom-none":
                regions.QuadtreeGrid2D.from_catalog(cat, 1, zoom=None)
            elif kind == "threshold-str":
                regions.QuadtreeGrid2D.from_catalog(cat, 'x', zoom=3)
            elif kind == "catalog-none":
                regions.QuadtreeGrid2D.from_catalog(None, 1, zoom=3)
            elif kind == "single-str":
                regions.QuadtreeGrid2D.from_single_resolution('3')
            elif kind == "quadkeys-bad":
                regions.QuadtreeGrid2D.from_quadkeys(['0', '1x', '2'])
        return "accepted"
    except Runaway:
        return "cut-off"
    except Exception as ex:
        return type(ex).__name__


def copy_region(r, form):
    import copy
    import pickle
    key = (type(r).__name__, form)
    if key in COPY_UNSUPPORTED:
        return None
    try:
        return {"copy": copy.copy, "deepcopy": copy.deepcopy, "pickle": lambda x: pickle.loads(pickle.dumps(x))}[form](r)
    except Exception as ex:
        COPY_UNSUPPORTED[key] = f"{type(ex).__name__}: {ex}"[:120]
        return None


def _build(kind, params):
    """build the region from a replayable description"""
    from csep.core import regions
    from csep.core.catalogs import CSEPCatalog
    kw = {}
    if params.get("mags"):
        kw = dict(magnitudes=numpy.array([4.0, 5.0, 6.5]), name="c17-named")
    poisoned = poison_call(params["poison"]) if params.get("poison") else None
    if kind == "single":
        z = int(params["zoom"])
        with bounded_work((4 ** (max(z, 1) + 1) - 4) // 3, 4 ** max(z, 1), f"from_single_resolution({z})"):
            r = regions.QuadtreeGrid2D.from_single_resolution(params["zoom"], **kw)
    elif kind == "catalog":
        ev = [(float.fromhex(a), float.fromhex(b)) for a, b in params["events"]]
        cat = _building_catalog(ev, params.get("subclass"))
        zoom_eff = 11 if params["zoom"] is None else int(params["zoom"])
        leaves, nodes = expected_refinement(params["threshold"], zoom_eff, ev)
        with bounded_work(nodes, leaves, f"from_catalog(threshold={params['threshold']}, zoom={params['zoom']}, {len(ev)} events)"):
            if params["zoom"] is None:            # the documented default zoom=11
                r = regions.QuadtreeGrid2D.from_catalog(cat, params["threshold"], **kw)
            else:
                r = regions.QuadtreeGrid2D.from_catalog(cat, params["threshold"], zoom=params["zoom"], **kw)
    elif kind == "quadkeys":
        r = regions.QuadtreeGrid2D.from_quadkeys(list(params["keys"]), **kw)
    elif kind == "bigkeys":
        import random
        r = regions.QuadtreeGrid2D.from_quadkeys(numpy.array(big_keyset(random.Random(params["seed"]))))
    elif kind == "california":
        r = regions.california_quadtree_region()
    else:
        raise ValueError(kind)
    copied = None
    if params.get("copy"):
        r2 = copy_region(r, params["copy"])      # (h) the region is used through its copy / pickle image from here on
        copied = r2 is not None
        r = r if r2 is None else r2
    g = Grid(kind, params, r, list(r.quadkeys))
    g.poisoned, g.copied = poisoned, copied
    # binding of magnitudes / name is not part of C17 (C03 uses region.magnitudes): recorded, never a verdict
    g.bound = None if not kw else bool(r.name == "c17-named" and r.magnitudes is not None
                                       and numpy.array_equal(numpy.asarray(r.magnitudes), kw["magnitudes"]))
    return g


def _case(g, **kw):
    p = dict(g.params)
    if g.kind == "quadkeys" and len(p.get("keys", [])) > 64:
        p = dict(p)  # keep full list: needed for replay
    return dict(kind=g.kind, params=p, **kw)


def check_structure(run, drv, pend, g, partition_expected):
    """bounds, prefix-freeness / coverage in exact dyadic arithmetic, areas; queue model comparison"""
    from csep.core import regions
    r, keys = g.region, g.keys
    b = qt_bounds(r)
    E, _ = edges(g.D)
    check_edge_tables(run, g.D)
    n = len(keys)
    case = _case(g, check="structure")
    # --- bounds are the dyadic tile of the key (lon exact, lat the shared edge floats)
    bad = None
    for i, k in enumerate(keys):
        X, Y, z = key_xy(k)
        w = Fraction(X, 1 << z) * 360 - 180
        e = Fraction(X + 1, 1 << z) * 360 - 180
        sh = g.D - z
        if (Fraction(b[i, 0]) != w or Fraction(b[i, 2]) != e or b[i, 3] != E[Y << sh] or b[i, 1] != E[(Y + 1) << sh]):
            bad = (i, k, [hexs(v) for v in b[i]])
            break
    if bad:
        run.oracle_failure(dict(case, cell=bad), f"bounds of cell {bad[1]} are not its dyadic tile: {bad[2]}")
    # --- pairwise disjoint <=> prefix-free (sorted neighbours); coverage <=> sum 4^-z = 1
    sk = sorted(keys)
    nested = [(sk[i], sk[i + 1]) for i in range(n - 1) if sk[i + 1].startswith(sk[i])]
    cover = sum(Fraction(1, 4 ** len(k)) for k in keys)
    if partition_expected:
        if nested:
            run.oracle_failure(dict(case, nested=nested[:3]), f"cells overlap: {nested[0]}")
        if cover != 1:
            run.oracle_failure(dict(case, cover=str(cover)), f"cells do not cover the domain: total measure {cover}")
    # an ARBITRARY prefix-free key list covers the domain iff its Kraft sum is 1 (theorem prefix_free_cover_iff_kraft_rat):
    # then it is a partition like the constructor-made grids and is judged like them (bounding box, area total, and in
    # check_queries: every point of the domain has exactly one cell)
    complete = partition_expected or (n > 0 and not nested and len(set(keys)) == n and cover == 1)
    g.kraft_complete = complete
    if complete and not partition_expected:
        run.count("keyset:prefix-free-kraft-sum-1")
    if complete:
        bb = r.get_bbox()
        if not (bb[0] == -180.0 and bb[1] == 180.0 and bb[2] == E[-1] and bb[3] == E[0]
                and abs(bb[3] - LATMAX) < 1e-12 and abs(bb[2] + LATMAX) < 1e-12):
            run.oracle_failure(dict(case, bbox=[hexs(v) for v in bb]), "bounding box is not lon [-180,180] x lat +-85.0511")
    # --- areas
    area = numpy.asarray(r.get_cell_area(), dtype=float)
    band = 4 * math.pi * R_KM ** 2 * math.sin(math.radians(E[0]))
    if complete:
        tot = math.fsum(area.tolist())
        if not abs(tot - band) <= 1e-9 * band:
            run.oracle_failure(dict(case, total=hexs(tot), band=hexs(band)), "cell areas do not add up to the band area")
    # each cell: area = sum of the areas of its four children, computed by the library on mercantile's child bounds
    import mercantile
    idxs = list(range(n)) if n <= 64 else sorted(set(int(v) for v in numpy.linspace(0, n - 1, 48)))
    for i in idxs:
        kids = [mercantile.bounds(mercantile.quadkey_to_tile(keys[i] + c)) for c in "0123"]
        s = math.fsum(regions.geographical_area_from_bounds(t.west, t.south, t.east, t.north) for t in kids)
        if not abs(s - area[i]) <= 1e-9 * abs(area[i]) or not area[i] > 0:
            run.oracle_failure(dict(case, cell=keys[i], area=hexs(area[i]), children=hexs(s)),
                               "cell area differs from the sum of its children's areas")
            break
    # --- model: bounds and areas
    ks = ",".join(keys) if keys else "-"
    pend.append(("bounds", g, case, drv.ask(f"c17_bounds {ks}"), b))
    pend.append(("area", g, case, drv.ask(f"c17_area {ks}"), area))
    return nested


def check_queries(run, drv, pend, g, pts, partition_expected, prefix_free, tag):
    """pts: list of (lon, lat) floats.  Oracle: located cell = the listed cell whose key is a prefix of the point's exact
    depth-D key (unique when prefix-free; first listed otherwise); brute force on the implementation's own bounds."""
    r, keys = g.region, g.keys
    b = qt_bounds(r)
    kidx = {}
    for i, k in enumerate(keys):
        kidx.setdefault(k, i)
    # NaN is not a point of the globe (outside the property's quantifier): such a query must not be given a cell; "no cell"
    # (what the comparisons of the current code yield) and a rejection are both accepted; the checks below run on the other points
    nans = [(lo, la) for lo, la in pts if lo != lo or la != la]
    if nans:
        pts = [(lo, la) for lo, la in pts if lo == lo and la == la]
        for lo, la in nans:
            got_n = _loc(r, lo, la)
            run.count("query:nan:" + ("no-cell" if got_n is None else "rejected" if isinstance(got_n, str) else "CELL"))
            if isinstance(got_n, int):
                run.oracle_failure(_case(g, check="query", point=[hexs(lo), hexs(la)], tag=tag),
                                   f"a NaN coordinate is located in cell {got_n}")
        try:
            m_n = [bool(v) for v in numpy.asarray(r.get_masked([p_[0] for p_ in nans], [p_[1] for p_ in nans])).ravel().tolist()]
            if not all(m_n):
                run.oracle_failure(_case(g, check="masked", points=[[hexs(a), hexs(c)] for a, c in nans], tag=tag),
                                   "get_masked is False for a NaN coordinate (the point would be kept as lying in a cell)")
        except Exception:
            run.count("query:nan:get_masked-rejected")
        if not pts:
            return
    units, impl = [], []
    on_edge = False
    for lon, lat in pts:
        x, y = to_unit(lon, lat, g.D)
        units.append((x, y))
        got_i = _loc(r, lon, lat)
        if isinstance(got_i, str):
            run.oracle_failure(_case(g, check="query", point=[hexs(lon), hexs(lat)], tag=tag),
                               f"get_index_of({lon!r},{lat!r}) returned {got_i}: neither a cell index nor the empty array")
            got_i = None
        impl.append(got_i)
        dk = unit_key(x, y, g.D)
        n = 1 << g.D
        if dk is not None and ((x * n).denominator == 1 or (y * n).denominator == 1):
            on_edge = True
        # exact expectation
        if dk is None:
            exp = None
        else:
            cands = [kidx[dk[:L]] for L in range(0, g.D + 1) if dk[:L] in kidx]
            if not prefix_free:
                # first listed among all cells (duplicates included) that contain the point
                cands = [i for i, k in enumerate(keys) if dk.startswith(k)]
            exp = min(cands) if cands else None
            if prefix_free and len(cands) > 1:
                run.oracle_failure(_case(g, check="query", point=[hexs(lon), hexs(lat)], tag=tag),
                                   "two cells of a prefix-free grid contain one point")
            if (partition_expected or getattr(g, "kraft_complete", False)) and exp is None:
                run.oracle_failure(_case(g, check="query", point=[hexs(lon), hexs(lat)], tag=tag),
                                   "a point of the covered domain lies in no cell")
        # brute force on the implementation's own bounds (vectorised here, independently of _find_location)
        inside = numpy.nonzero((b[:, 0] <= lon) & (lon < b[:, 2]) & (b[:, 1] <= lat) & (lat < b[:, 3]))[0]
        brute = int(inside[0]) if inside.size else None
        if prefix_free and inside.size > 1:
            run.oracle_failure(_case(g, check="query", point=[hexs(lon), hexs(lat)], tag=tag),
                               f"bounds of cells {inside[:3].tolist()} overlap at the point")
        if got_i != exp or got_i != brute:
            run.oracle_failure(_case(g, check="query", point=[hexs(lon), hexs(lat)], tag=tag),
                               f"get_index_of({lon!r},{lat!r}) = {got_i}, exact containing cell {exp}, "
                               f"brute force on bounds {brute}")
        run.count("located" if got_i is not None else "no-cell")
    # array form drops unlocated points
    try:
        arr = r.get_index_of([float(p[0]) for p in pts], [float(p[1]) for p in pts])
        arr = [int(v) for v in numpy.asarray(arr).ravel().tolist()]
    except Exception as ex:
        arr = [f"E:{type(ex).__name__}"]
    if arr != [i for i in impl if i is not None]:
        run.oracle_failure(_case(g, check="query-array", points=[[hexs(a), hexs(c)] for a, c in pts][:50], tag=tag),
                           "array get_index_of differs from the scalar results with unlocated points dropped")
    multi = len(set(len(k) for k in keys)) > 1 or len(keys) >= 16
    case = _case(g, check="query", points=[[hexs(a), hexs(c)] for a, c in pts], tag=tag)
    run.case(case if len(pts) <= 8 else _case(g, check="query", npoints=len(pts), tag=tag),
             (g.kind, _pkey(g), tag, len(pts)) if (multi and on_edge) else None)
    run.extra["query_points"] = run.extra.get("query_points", 0) + len(pts)
    ks = ",".join(keys) if keys else "-"
    pend.append(("locate", g, case, drv.ask(f"c17_locate {ks} {pts_arg(units)}"), impl))
    pend.append(("getindex", g, case, drv.ask(f"c17_getindex {ks} {pts_arg(units)}"), arr))
    check_masked(run, drv, pend, g, pts, units, impl, tag, with_catalog=(tag in ("batch0", "events", "replay", "big")))


def _loc(r, lon, lat, as_int=False):
    """scalar get_index_of, canonical: cell index, None (empty array = no cell) or 'BAD:…' for anything else"""
    try:
        got = r.get_index_of(int(lon), int(lat)) if as_int else r.get_index_of(float(lon), float(lat))
    except Exception as ex:
        return f"BAD:{type(ex).__name__}"
    if got is None or (isinstance(got, (numpy.ndarray, list, tuple)) and numpy.size(got) == 0):
        return None            # "no cell": the empty array of the current code, or an empty sequence / None of a rewrite
    try:
        if numpy.size(got) == 1 and int(got) == got and not isinstance(got, (bool, numpy.bool_)):
            return int(got)
    except Exception:
        pass
    return f"BAD:{got!r}"[:60]


def check_masked(run, drv, pend, g, pts, units, located, tag, with_catalog):
    """QuadtreeGrid2D.get_masked (regions.py:1106, D42) and catalog.filter_spatial on the same points: True exactly where
    get_index_of finds no cell; list / ndarray / scalar arguments; filter_spatial keeps exactly the located events, in order"""
    r = g.region
    case = _case(g, check="masked", points=[[hexs(a), hexs(c)] for a, c in pts], tag=tag)
    want = [v is None for v in located]
    lons, lats = [float(p[0]) for p in pts], [float(p[1]) for p in pts]
    forms = {"list": (lons, lats), "ndarray": (numpy.array(lons), numpy.array(lats))}
    impl = None
    for form, (a, c) in forms.items():
        try:
            m = r.get_masked(a, c)
            got = [bool(v) for v in numpy.asarray(m).ravel().tolist()]
        except Exception as ex:
            got = f"E:{type(ex).__name__}"
        if got != want:
            run.oracle_failure(dict(case, form=form), f"get_masked({form}) = {str(got)[:120]}, but get_index_of finds a cell exactly for "
                                                      f"{[not w for w in want][:40]} (masked must be True exactly where no cell contains the point)")
        impl = got if impl is None else impl
    if pts:
        j = len(pts) // 2
        try:
            got = [bool(v) for v in numpy.asarray(r.get_masked(lons[j], lats[j])).ravel().tolist()]
        except Exception as ex:
            got = f"E:{type(ex).__name__}"
        if got != [want[j]]:
            run.oracle_failure(dict(case, form="scalar", index=j), f"get_masked(scalar) = {got}, expected {[want[j]]}")
    run.count("masked")
    ks = ",".join(g.keys) if g.keys else "-"
    pend.append(("masked", g, dict(case, op="c17_masked"), drv.ask(f"c17_masked {ks} {pts_arg(units)}"), want if isinstance(impl, str) else impl))
    if not with_catalog or not pts:
        return
    # catalog.filter_spatial(region): the located events survive, in catalog order; in_place both ways
    from csep.core.catalogs import CSEPCatalog
    fin = [i for i, (lo, la) in enumerate(pts) if lo == lo and la == la]      # a catalog row needs numbers
    keep = [i for i in fin if located[i] is not None]
    for in_place in (True, False):
        try:
            cat = CSEPCatalog(data=[(str(i), 1000 * i, lats[i], lons[i], 5.0, 4.0) for i in fin], compute_stats=False)
            out = cat.filter_spatial(r, in_place=in_place)
            ids = [int(v.decode() if isinstance(v, bytes) else v) for v in out.get_event_ids()]
            n_src = cat.event_count
        except Exception as ex:
            ids, n_src = f"E:{type(ex).__name__}: {ex}"[:100], None
        if ids != keep:
            run.oracle_failure(dict(case, in_place=in_place), f"filter_spatial(in_place={in_place}) keeps events {str(ids)[:120]}, the events "
                                                              f"lying in a cell are {keep[:40]}")
        elif not in_place and n_src != len(fin):
            run.oracle_failure(dict(case, in_place=False), "filter_spatial(in_place=False) changed the catalog it was called on")
    run.count("filter_spatial")
    pend.append(("filterspatial", g, dict(case, op="c17_filterspatial"),
                 drv.ask(f"c17_filterspatial {ks} {pts_arg([units[i] for i in fin])}"), [fin.index(i) for i in keep]))


def _pkey(g):
    p = g.params
    if g.kind == "single":
        return ("z", p["zoom"])
    if g.kind == "catalog":
        return (p["threshold"], p["zoom"], tuple(map(tuple, p["events"][:6])), len(p["events"]))
    if g.kind == "quadkeys":
        return tuple(p["keys"][:12]) + (len(p["keys"]),)
    if g.kind == "bigkeys":
        return ("bigkeys", p["seed"])
    return ("california",)


def check_refinement(run, drv, pend, g):
    """from_catalog: recount, leaf bound, no needless split; model leaves + counts"""
    from csep.core import regions
    p = g.params
    thr, zoom = p["threshold"], (p["zoom"] if p["zoom"] is not None else 11)
    ev = [(float.fromhex(a), float.fromhex(b)) for a, b in p["events"]]
    D = max(zoom, 1)
    check_edge_tables(run, D)
    units = [to_unit(lo, la, D) for lo, la in ev]
    dkeys = [unit_key(x, y, D) for x, y in units]
    case = _case(g, check="refine")

    def cnt(k):
        return sum(1 for d in dkeys if d is not None and d.startswith(k))
    keys = g.keys
    for k in keys:
        c = cnt(k)
        if c > thr and len(k) < zoom:
            run.oracle_failure(dict(case, cell=k, count=c), f"leaf {k} holds {c} > threshold {thr} events below max zoom")
            break
        if len(k) > max(zoom, 1):
            run.oracle_failure(dict(case, cell=k), f"leaf {k} deeper than max zoom {zoom}")
            break
    parents = set(k[:L] for k in keys for L in range(1, len(k)))
    for q in sorted(parents):
        if not (cnt(q) > thr and len(q) < zoom):
            run.oracle_failure(dict(case, cell=q, count=cnt(q)), f"tile {q} with {cnt(q)} <= threshold {thr} events was split")
            break
    # the library's own counts (`num`), through the anchored recursion
    lon = numpy.array([e[0] for e in ev], dtype=float)
    lat = numpy.array([e[1] for e in ev], dtype=float)
    qk, num = [], []
    try:                              # private helper: used when it is there with this signature, never required
        e_leaves, e_nodes = expected_refinement(thr, zoom, ev)
        with bounded_work(e_nodes, e_leaves, "_create_tile"):
            for root in "0123":
                regions._create_tile(root, thr, zoom, lon, lat, qk, num)
        qk, num = [str(k) for k in qk], [int(v) for v in num]
        if len(qk) != len(num):
            raise ValueError("qk / num lengths differ")
    except Runaway as ex:
        run.oracle_failure(case, f"the refinement recursion does far more work than the rule allows — {ex}")
        return
    except Exception as ex:
        run.count("helper-missing:_create_tile")
        note = ("private helper regions._create_tile is not available with the driven signature on the tree under test "
                f"({type(ex).__name__}): the exact recount on the grid of the public constructor from_catalog stands in")
        if note not in run.assumptions:
            run.assumptions.append(note)
        qk, num = list(keys), [cnt(k) for k in keys]
    if sorted(qk) != sorted(keys):
        # the private recursion no longer produces the grid of the public constructor (it may be unused by now): not a verdict
        run.count("private-helper-diverges:_create_tile")
        qk, num = list(keys), [cnt(k) for k in keys]
    if num != [cnt(k) for k in qk]:
        run.oracle_failure(dict(case, num=num[:40]), "recorded leaf counts differ from an exact recount")
    inside = sum(1 for d in dkeys if d is not None)
    if sum(num) != inside:
        run.oracle_failure(case, "leaf counts do not add up to the number of events inside the domain")
    kinds = set()
    for (x, y) in units:
        n = 1 << D
        if (x * n).denominator == 1 or (y * n).denominator == 1:
            kinds.add("edge")
    multi = len(set(len(k) for k in keys)) > 1
    run.case(case if len(ev) <= 6 else dict(kind="catalog", check="refine", threshold=thr, zoom=zoom, nevents=len(ev),
                                             gen=p.get("gen")),
             ("refine", _pkey(g)) if (multi and "edge" in kinds) or (multi and len(ev) > 20) else None)
    run.count(f"refine-thr{thr}")
    run.count("refine-multi-depth" if multi else "refine-flat")
    pend.append(("refine", g, case, drv.ask(f"c17_refine {thr} {zoom} {pts_arg(units)}"),
                 [f"{k}:{int(v)}" for k, v in zip(qk, num)]))


def check_selfgrid(run, drv, pend, g):
    """The building catalog BOUND to the grid it built, seen through the gridding API (other code than `_create_tile`):
    `spatial_counts()` = exact recount per leaf = the model's `num` (theorem from_catalog_self_counts); every entry is
    <= threshold unless its cell is at the maximum zoom; `spatial_event_probability` = [count > 0]; `get_spatial_idx` = one index
    per event inside the domain, in catalog order; `spatial_magnitude_counts` returns iff every event lies inside the domain."""
    from csep.core.catalogs import CSEPCatalog
    p = g.params
    thr, zoom = p["threshold"], (p["zoom"] if p["zoom"] is not None else 11)
    ev = [(float.fromhex(a), float.fromhex(b)) for a, b in p["events"]]
    if len(g.keys) * max(len(ev), 1) > 4e6:
        run.count("selfgrid:skipped-too-large")
        return
    D = max(zoom, 1)
    units = [to_unit(lo, la, D) for lo, la in ev]
    dkeys = [unit_key(x, y, D) for x, y in units]
    case = _case(g, check="selfgrid")
    keys = g.keys
    kidx = {k: i for i, k in enumerate(keys)}

    def owner(d):
        if d is None:
            return None
        for L in range(1, len(d) + 1):
            if d[:L] in kidx:
                return kidx[d[:L]]
        return None
    own = [owner(d) for d in dkeys]
    exp = [0] * len(keys)
    for o in own:
        if o is not None:
            exp[o] += 1
    mags = [4.0 + 0.5 * (i % 4) for i in range(len(ev))]
    cat = CSEPCatalog(data=[(str(i), 1000 * i, la, lo, 5.0, m) for i, ((lo, la), m) in enumerate(zip(ev, mags))], region=g.region)

    def call(f):
        try:
            return numpy.asarray(f())
        except Exception as ex:
            return "E:" + type(ex).__name__
    sc = call(cat.spatial_counts)
    if isinstance(sc, str) or sc.shape != (len(keys),) or [int(v) for v in sc] != exp or not numpy.all(sc == numpy.round(sc)):
        run.oracle_failure(case, f"spatial_counts of the building catalog on its own grid {str(sc)[:120]} differs from the exact "
                                 f"recount per leaf {str(exp)[:120]}")
        return
    for k, c in zip(keys, exp):
        if c > thr and len(k) < zoom:
            run.oracle_failure(dict(case, cell=k, count=c), f"spatial_counts: cell {k} holds {c} > threshold {thr} events of the "
                                                             f"building catalog below the maximum zoom")
            break
    sep = call(cat.spatial_event_probability)
    if ev and (isinstance(sep, str) or [int(v) for v in sep] != [1 if c > 0 else 0 for c in exp]):
        run.oracle_failure(case, "spatial_event_probability of the building catalog is not 1 exactly where its count is positive")
    if ev:
        sidx = call(cat.get_spatial_idx)
        if isinstance(sidx, str) or [int(v) for v in sidx] != [o for o in own if o is not None]:
            run.oracle_failure(case, f"get_spatial_idx of the building catalog {str(sidx)[:120]} != the owning leaves "
                                     f"{str([o for o in own if o is not None])[:120]}")
        smc = call(lambda: cat.spatial_magnitude_counts(mag_bins=[4.0, 4.5, 5.0, 5.5]))
        allin = all(o is not None for o in own)
        if allin:
            e2 = [[0] * 4 for _ in keys]
            for o, m in zip(own, mags):
                e2[o][int(round((m - 4.0) / 0.5))] += 1
            if isinstance(smc, str) or smc.shape != (len(keys), 4) or smc.astype(int).tolist() != e2:
                run.oracle_failure(case, f"spatial_magnitude_counts of the building catalog on its own grid: {str(smc)[:160]}")
        elif not isinstance(smc, str):      # any exception is a rejection
            run.oracle_failure(case, "spatial_magnitude_counts returned although an event of the catalog lies outside the covered "
                                     "domain (in no cell)")
        run.count("selfgrid:all-inside" if allin else "selfgrid:some-outside")
    run.case(None, ("selfgrid", _pkey(g)) if any(c > 1 for c in exp) and len(set(len(k) for k in keys)) > 1 else None)
    pend.append(("selfcount", g, case, drv.ask(f"c17_selfcount {thr} {zoom} {pts_arg(units)}"), dict(zip(keys, exp))))


def _expected_cell(b, lon, lat):
    inside = numpy.nonzero((b[:, 0] <= lon) & (lon < b[:, 2]) & (b[:, 1] <= lat) & (lat < b[:, 3]))[0]
    return int(inside[0]) if inside.size else None


def issue(r, pts, mode):
    """one ordered sequence of lookups on ONE region object; returns per-mode canonical result"""
    if mode == "scalar":
        out = []
        for lon, lat in pts:
            got = r.get_index_of(float(lon), float(lat))
            out.append(None if isinstance(got, numpy.ndarray) and got.size == 0 else int(got))
        return out
    lons, lats = [float(p[0]) for p in pts], [float(p[1]) for p in pts]
    if mode == "ndarray":
        lons, lats = numpy.array(lons), numpy.array(lats)
    return [int(v) for v in numpy.asarray(r.get_index_of(lons, lats)).tolist()]


def check_sequence(run, drv, pend, g, pts, mode, tag):
    """the cell of a point must not depend on which points were looked up before it on the same region object"""
    r = g.region
    b = qt_bounds(r)
    exp = [_expected_cell(b, lon, lat) for lon, lat in pts]
    case = _case(g, check="order", points=[[hexs(a), hexs(c)] for a, c in pts], mode=mode, tag=tag)
    try:
        got = issue(r, pts, mode)
    except Exception as ex:
        run.oracle_failure(case, f"get_index_of raised {type(ex).__name__}: {ex}")
        return
    want = exp if mode == "scalar" else [v for v in exp if v is not None]
    run.count("sequence:" + mode)
    if got != want:
        d = [j for j, (a, c) in enumerate(zip(got, want)) if a != c][:3]
        run.oracle_failure(dict(case, first_diff=d), f"{mode} lookups issued in this order give {got[:12]}, per-point containment "
                                                     f"gives {want[:12]} (the cell of a point depends on the lookups before it)")
    units = [to_unit(lon, lat, g.D) for lon, lat in pts]
    ks = ",".join(g.keys) if g.keys else "-"
    op = "c17_locate" if mode == "scalar" else "c17_getindex"
    pend.append(("locate" if mode == "scalar" else "getindex", g, dict(case, op=op), drv.ask(f"{op} {ks} {pts_arg(units)}"), got))


def check_order(run, drv, pend, g, rng, ncells):
    """ordered sequences aimed at state kept between lookups: a point inside tile A, then points exactly on A's east /
    north edge and corners (owned by the neighbours that edge opens) — as repeated scalar calls, as list / ndarray calls,
    forwards, backwards and shuffled"""
    keys = g.keys
    E, _ = edges(g.D)
    n = 0
    for k in (rng.sample(keys, ncells) if len(keys) > ncells else list(keys)):
        X, Y, z = key_xy(k)
        sh = g.D - z
        w, e = -180 + 360 * X / 2 ** z, -180 + 360 * (X + 1) / 2 ** z
        n_, s_ = E[Y << sh], E[(Y + 1) << sh]
        mx, my = (w + e) / 2, (n_ + s_) / 2
        a = (mx, my)
        edge_pts = [(e, my), (mx, n_), (e, n_), (e, s_), (w, n_)]
        seq = []
        for p in edge_pts:
            seq += [a, p]                       # every edge point directly after a hit inside A
        tag = f"order:{k}"
        check_sequence(run, drv, pend, g, seq, "scalar", tag)
        check_sequence(run, drv, pend, g, [edge_pts[0], a, edge_pts[0], edge_pts[0], a, edge_pts[1], edge_pts[1]], "scalar", tag + ":repeat")
        check_sequence(run, drv, pend, g, seq, rng.choice(["list", "ndarray"]), tag)
        check_sequence(run, drv, pend, g, list(reversed(seq)), rng.choice(["list", "ndarray"]), tag + ":reversed")
        sq = list(seq)
        rng.shuffle(sq)
        check_sequence(run, drv, pend, g, sq, rng.choice(["scalar", "list", "ndarray"]), tag + ":shuffled")
        n += 1
    multi = len(set(len(k) for k in keys)) > 1 or len(keys) >= 16
    run.case(_case(g, check="order", ncells=n), ("order", g.kind, _pkey(g)) if multi else None)


def check_cartesian(run, drv, pend, g, partition_expected, prefix_free, limit):
    """get_cartesian / spatial_counts(cartesian=True): value of the first cell containing each lattice point
    (distinct west edge, distinct south edge); ValueError exactly when a lattice point lies in no cell"""
    import contextlib
    import io
    r, keys = g.region, g.keys
    b = qt_bounds(r)
    n = len(keys)
    xs = sorted(set(b[:, 0].tolist()))
    ys = sorted(set(b[:, 1].tolist()))
    if len(xs) * len(ys) * n > limit:
        run.count("cartesian-skipped-too-large")
        return
    case = _case(g, check="cartesian")
    data = numpy.arange(n, dtype=float) * 2.0 + 1.0
    try:
        with contextlib.redirect_stdout(io.StringIO()):
            got = numpy.asarray(r.get_cartesian(data))
        impl = [[None if v != v else int((v - 1) / 2) for v in row] for row in got.tolist()]
        try:
            ixs, iys = [float(v) for v in r.xs], [float(v) for v in r.ys]
        except AttributeError:          # the axes are kept elsewhere by a rewrite: not part of the property
            ixs = iys = None
            run.count("cartesian:axes-attributes-absent")
    except Exception as ex:
        impl, exc = "E", type(ex).__name__
    # exact expectation by brute force on the implementation's own bounds
    exp = []
    for y in ys:
        row = []
        for x in xs:
            inside = numpy.nonzero((b[:, 0] <= x) & (x < b[:, 2]) & (b[:, 1] <= y) & (y < b[:, 3]))[0]
            row.append(int(inside[0]) if inside.size else None)
        exp.append(row)
    gap = any(v is None for row in exp for v in row)
    run.case(case, ("cartesian", g.kind, _pkey(g)) if (len(set(len(k) for k in keys)) > 1 or gap) else None)
    run.count("cartesian:" + ("raises" if impl == "E" else "ok"))
    if partition_expected and gap:
        run.oracle_failure(case, "a lattice point (west edge, south edge) of a grid covering the domain lies in no cell")
    if impl == "E":
        if not gap:
            run.oracle_failure(case, f"get_cartesian raised {exc} although every lattice point lies in a cell")
    else:
        # a lattice point in no cell: the current code raises (assigning an empty array to an element); NaN at exactly those
        # positions — what the Cartesian region's get_cartesian gives outside its cells — is the other answer the statement allows
        if gap:
            run.count("cartesian:gap-as-nan")
        if impl != exp:
            bad = [(j, i) for j in range(len(exp)) for i in range(len(xs)) if j >= len(impl) or i >= len(impl[j]) or impl[j][i] != exp[j][i]][:3]
            run.oracle_failure(dict(case, at=bad), f"get_cartesian differs from the cell containing the lattice point at (row, col) {bad}")
        if ixs is not None and (ixs != xs or iys != ys):
            run.oracle_failure(case, "xs / ys are not the distinct west / south edges in ascending order")
        if prefix_free and not gap and impl == exp:
            xi = {x: i for i, x in enumerate(xs)}
            yi = {y: j for j, y in enumerate(ys)}
            for k in range(n):
                if impl[yi[float(b[k, 1])]][xi[float(b[k, 0])]] != k:
                    run.oracle_failure(dict(case, cell=keys[k]), f"the value of cell {keys[k]} is not at the position of its south-west corner")
                    break
        # gridded data sets on this region agree with the per-cell values
        if not gap and n <= 300:
            from csep.core.forecasts import GriddedForecast, GriddedDataSet
            try:
                d2 = numpy.column_stack((data, numpy.arange(n, dtype=float)))
                with contextlib.redirect_stdout(io.StringIO()):
                    f = GriddedForecast(data=d2, region=r, magnitudes=numpy.array([4.0, 5.0]))
                    c2 = numpy.asarray(f.spatial_counts(cartesian=True))
                    per = numpy.asarray(f.spatial_counts())
                    c1 = numpy.asarray(GriddedDataSet(data=data.copy(), region=r).spatial_counts(cartesian=True))
                want2 = numpy.array([[per[k] for k in row] for row in exp])
                want1 = numpy.array([[data[k] for k in row] for row in exp])
                if not numpy.array_equal(c2, want2) or not numpy.array_equal(c1, want1):
                    run.oracle_failure(case, "spatial_counts(cartesian=True) differs from the per-cell values at the lattice points")
                run.count("cartesian:forecast")
            except Exception as ex:
                run.oracle_failure(case, f"spatial_counts(cartesian=True) raised {type(ex).__name__}: {ex}")
    ks = ",".join(keys) if keys else "-"
    pend.append(("cartesian", g, case, drv.ask(f"c17_cartesian {ks}"), (impl, xs, ys)))


N_BIG = 3000


def _sample_idx(rng, n, m):
    if rng is None:                       # replay: every cell (capped)
        return list(range(min(n, 4000)))
    return list(range(n)) if n <= m else sorted(rng.sample(range(n), m))


def check_api(run, drv, pend, g, rng, prefix_free, indices=None):
    """the remaining public surface of a quadtree region, tied to the model: origins / midpoints / to_dict,
    get_location_of, get_bbox, save_quadtree -> genfromtxt -> from_quadkeys, the Mercator bounds and the cell area
    through the code-shaped geographical_area_from_bounds"""
    from csep.core import regions
    r, keys = g.region, g.keys
    n = len(keys)
    if n == 0:
        return
    b = qt_bounds(r)
    E, _ = edges(g.D)
    case = _case(g, check="api")
    ks = ",".join(keys)
    if g.bound is not None:
        run.count("magnitudes-and-name-bound" if g.bound else "magnitudes-or-name-NOT-bound(not judged)")
    # --- origins(), to_dict(): the (west, south) corner of every cell, in cell order
    org = numpy.asarray(r.origins(), dtype=float)
    if org.shape != (n, 2) or not numpy.array_equal(org, b[:, :2]):
        run.oracle_failure(case, "origins() is not the (west, south) corner of every cell")
        return
    try:
        d = r.to_dict()
        dl = [(float(p["lon"]), float(p["lat"])) for p in d["polygons"]]
    except (KeyError, TypeError, AttributeError):
        dl = None      # another dictionary layout: the dict form is property C18's subject, not judged here
        run.count("api:to_dict-other-layout(not judged)")
    if dl is not None and dl != [(float(b[i, 0]), float(b[i, 1])) for i in range(n)]:
        run.oracle_failure(case, "to_dict()['polygons'] is not the list of (west, south) corners in cell order")
    big = n > N_BIG          # huge grids (e.g. a refinement that does not stop): sampled cells only, fewer model ops
    idxs = _sample_idx(rng, n, 40)
    if big:
        pend.append(("origins", g, case, drv.ask(f"c17_origins {','.join(keys[i] for i in idxs)}"), org[idxs]))
        mid = {i: [float(v) for v in r.polygons[i].centroid()] for i in idxs}
    else:
        pend.append(("origins", g, case, drv.ask(f"c17_origins {ks}"), org))
        mid = numpy.asarray(r.midpoints(), dtype=float)
    # --- every origin and every midpoint is located in its own cell (prefix-free grids; theorem origin_own_cell)
    own = []
    for i in idxs:
        mx, my = float(mid[i][0]), float(mid[i][1])
        if not (b[i, 0] <= mx < b[i, 2] and b[i, 1] <= my < b[i, 3]):
            run.oracle_failure(dict(case, cell=keys[i]), f"midpoint {mx!r},{my!r} of cell {keys[i]} lies outside its bounds")
            continue
        for (x, y, what) in ((float(org[i, 0]), float(org[i, 1]), "origin"), (mx, my, "midpoint")):
            got = _loc(r, x, y)
            exp = _expected_cell(b, x, y)
            if got != exp or (prefix_free and got != i):
                run.oracle_failure(dict(case, cell=keys[i], point=[hexs(x), hexs(y)]),
                                   f"{what} of cell {i} ({keys[i]}) is located in cell {got}, containment gives {exp}")
            own.append(((x, y), got))
    units = [to_unit(x, y, g.D) for (x, y), _ in own]
    pend.append(("locate", g, dict(case, op="c17_locate", what="origins+midpoints"),
                 drv.ask(f"c17_locate {ks} {pts_arg(units)}"), [v for _, v in own]))
    # --- get_location_of: the polygons of the given indices, IndexError beyond the last cell
    idx = list(indices) if indices else ([rng.randrange(n) for _ in range(min(n, 6))] if rng else list(range(min(n, 6))))
    idx = [i for i in idx if i < n] or [0]
    try:
        polys = r.get_location_of(idx)
        impl = [tuple(float(v) for v in q.origin) for q in polys]
    except Exception as ex:
        impl = "E:" + type(ex).__name__
    if impl != [(float(b[i, 0]), float(b[i, 1])) for i in idx]:
        run.oracle_failure(dict(case, indices=idx), f"get_location_of({idx}) does not return the polygons of these cells: {impl}")
    else:
        for q, i in zip(polys, idx):
            pts = numpy.asarray(q.points, dtype=float)
            if not (numpy.all(pts[:, 0] >= b[i, 0]) and numpy.all(pts[:, 0] <= b[i, 2])
                    and numpy.all(pts[:, 1] >= b[i, 1]) and numpy.all(pts[:, 1] <= b[i, 3])):
                run.oracle_failure(dict(case, cell=keys[i]), "polygon vertices lie outside the cell bounds")
    if not big:
        pend.append(("locationof", g, dict(case, indices=idx), drv.ask(f"c17_locationof {ks} {','.join(map(str, idx))}"),
                     [keys[i] for i in idx]))
    try:
        r.get_location_of([n])
        beyond = "ok"
    except Exception:      # an index beyond the last cell is rejected; the class is not judged
        beyond = "E"
    if not big:
        pend.append(("locationof", g, dict(case, indices=[n]), drv.ask(f"c17_locationof {ks} {n}"), beyond))
    # --- get_bbox
    bb = [float(v) for v in r.get_bbox()]
    if bb != [float(b[:, 0].min()), float(b[:, 2].max()), float(b[:, 1].min()), float(b[:, 3].max())]:
        run.oracle_failure(dict(case, bbox=[hexs(v) for v in bb]), "get_bbox is not (min west, max east, min south, max north)")
    if n <= 20000:
        pend.append(("bbox", g, case, drv.ask(f"c17_bbox {ks}"), bb))
    # --- Mercator bounds and cell areas from the model's own Float arithmetic (code-shaped functions)
    sub = idxs[:24]
    sk = ",".join(keys[i] for i in sub)
    area = numpy.asarray(r.get_cell_area(), dtype=float)
    pend.append(("mercbounds", g, case, drv.ask(f"c17_mercbounds {sk}"), b[sub]))
    pend.append(("cellarea", g, case, drv.ask(f"c17_cellarea {sk}"), area[sub]))
    # --- save_quadtree -> text lines -> genfromtxt(dtype=str) -> from_quadkeys (the path california_quadtree_region takes)
    if all(len(k) > 0 for k in keys) and n <= 20000:
        import tempfile
        tmpd = tempfile.TemporaryDirectory(prefix="c17_")
        path = os.path.join(tmpd.name, "qk.txt")
        r.save_quadtree(path)
        text = open(path).read()
        lines = text.split("\n")
        if lines and lines[-1] == "":
            lines.pop()
        lines = [ln.strip() for ln in lines]
        # the file holds the cells of the grid, one quadkey per line; the ORDER of the cells is not part of the property
        if sorted(lines) != sorted(keys):
            run.oracle_failure(case, "save_quadtree does not write the quadkeys of the grid, one per line")
        elif lines != keys:
            run.count("api:save-load:other-cell-order")
        if n <= 400 and lines == keys:
            pend.append(("savekeys", g, case, drv.ask(f"c17_savekeys {ks}"), lines))
            pend.append(("loadkeys", g, case, drv.ask(f"c17_loadkeys {'|'.join(lines)}"), keys))
        if n >= 2 and sorted(lines) == sorted(keys):     # a one-line file is read back as a 0-d array (notes: observation, outside C17)
            qk = numpy.genfromtxt(path, delimiter=",", dtype="str")
            r2 = regions.QuadtreeGrid2D.from_quadkeys(qk)
            k2 = [str(k) for k in r2.quadkeys]
            b2 = qt_bounds(r2)
            first = {}
            for j, k in enumerate(keys):
                first.setdefault(k, j)
            if sorted(k2) != sorted(keys) or any(not numpy.array_equal(b2[j], b[first[k]]) for j, k in enumerate(k2)):
                run.oracle_failure(case, "the grid re-loaded from its saved quadkeys differs (keys or bounds)")
            elif lines == keys or prefix_free:      # in a nested / duplicated key list the ORDER decides which cell answers
                for i in idxs[:12]:
                    x, y = float(mid[i][0]), float(mid[i][1])
                    a1, a2 = _loc(r, x, y), _loc(r2, x, y)
                    if (a1 is None) != (a2 is None) or (a1 is not None and (isinstance(a1, str) or isinstance(a2, str) or keys[a1] != k2[a2])):
                        run.oracle_failure(dict(case, point=[hexs(x), hexs(y)]), "re-loaded grid locates a point differently")
        tmpd.cleanup()
        run.count("api:save-load")
    run.count("api")
    run.case(case if n <= 64 else dict(kind=g.kind, check="api", ncells=n),
             ("api", g.kind, _pkey(g)) if (len(set(len(k) for k in keys)) > 1 or n >= 16) else None)


R2PI = 2 * math.pi * R_KM ** 2


def geo_tol(exp, lon1, lon2):
    """cancellation-aware tolerance: each spherical cap 2π(1−cos) carries a few ulps of 2π absolute error"""
    return 1e-9 * abs(exp) + 64 * 2.220446049250313e-16 * math.pi * R_KM ** 2 * abs(lon2 - lon1) / 360 + 1e-300


def check_geoarea(run, drv, pend, rng, n, args=None):
    """geographical_area_from_bounds on arbitrary bounds (degenerate, reversed, polar, tiny, tile-shaped) against the
    closed form 2πR²(sin lat2 − sin lat1)(lon2 − lon1)/360 (oracle) and the code-shaped Lean function (model)"""
    from csep.core import regions
    import struct
    bits = lambda x: str(struct.unpack("<Q", struct.pack("<d", float(x)))[0])
    todo = [args] if args else []
    while not args and len(todo) < n:
        k = rng.random()
        # (lon1, lat1) is the origin and (lon2, lat2) the top-right corner (docstring): ordered bounds only — what the
        # function does with reversed corners (a negative area today) is not part of the property
        lon1, lon2 = sorted((rng.uniform(-180, 180), rng.uniform(-180, 180)))
        lat1, lat2 = sorted((rng.uniform(-90, 90), rng.uniform(-90, 90)))
        if k < 0.12:
            lon2 = lon1
        elif k < 0.24:
            lat2 = lat1
        elif k < 0.36:
            lat1, lat2 = rng.choice([(-90.0, 90.0), (0.0, 90.0), (-90.0, 0.0), (-LATMAX, LATMAX), (lat1, 90.0)])
            lat1, lat2 = min(lat1, lat2), max(lat1, lat2)
        elif k < 0.5:
            lon2, lat2 = lon1 + rng.choice([1e-6, 1e-3, 0.1]), min(90.0, lat1 + rng.choice([1e-6, 1e-3, 0.1]))
        elif k < 0.7:
            z = rng.randint(1, 14)
            X, Y = rng.randrange(1 << z), rng.randrange(1 << z)
            import mercantile
            t = mercantile.bounds(X, Y, z)
            lon1, lat1, lon2, lat2 = t.west, t.south, t.east, t.north
        elif k < 0.8:
            lon1, lon2 = -180.0, 180.0
        todo.append([float(lon1), float(lat1), float(lon2), float(lat2)])
    for a in todo:
        lon1, lat1, lon2, lat2 = a
        case = dict(kind="geoarea", check="geoarea", args=[hexs(v) for v in a])
        got = float(regions.geographical_area_from_bounds(lon1, lat1, lon2, lat2))
        exp = R2PI * (math.sin(math.radians(lat2)) - math.sin(math.radians(lat1))) * (lon2 - lon1) / 360
        degenerate = lon1 == lon2 or lat1 == lat2
        run.count("geoarea:degenerate" if degenerate else "geoarea")
        if not abs(got - exp) <= geo_tol(exp, lon1, lon2):
            run.oracle_failure(case, f"geographical_area_from_bounds{tuple(a)} = {got!r}, spherical closed form {exp!r}")
        run.case(case, ("geoarea",) + tuple(case["args"]) if (degenerate or abs(lat2 - lat1) < 0.01) else None)
        pend.append(("geoarea", None, case, drv.ask("c17_geoarea " + " ".join(bits(v) for v in a)), (got, a)))


def _brute_cartesian(b, data):
    xs = sorted(set(b[:, 0].tolist()))
    ys = sorted(set(b[:, 1].tolist()))
    out = []
    for y in ys:
        row = []
        for x in xs:
            inside = numpy.nonzero((b[:, 0] <= x) & (x < b[:, 2]) & (b[:, 1] <= y) & (y < b[:, 3]))[0]
            row.append(float(data[int(inside[0])]) if inside.size else None)
        out.append(row)
    return out


SESSION_OPS = ("index", "index_int", "index_array", "masked", "cartesian", "bbox", "area", "origins", "midpoints", "to_dict",
               "location_of", "edit_area", "edit_cartesian", "edit_dict", "edit_origins", "edit_index_array",
               # round 6: returned arrays edited by the caller, caller-owned input arrays re-used after an in-place change, call forms
               "edit_midpoints", "edit_masked", "edit_bbox", "reuse_arrays", "index_keyword", "index_one_element",
               # round 7 (i): a call the library rejects, caught by the caller; the calls after it must answer like a fresh region
               "rejected_call")


def check_session(run, drv, pend, g, rng, steps, ops=None):
    """HISTORIES ON ONE REGION OBJECT: a random sequence of public calls (lookups in every argument form, get_masked,
    get_cartesian, get_bbox, get_cell_area, origins, midpoints, to_dict, get_location_of) interleaved with in-place edits BY
    THE CALLER of the arrays / dictionaries the region handed out earlier.  After EVERY step the result is compared with the
    expectation recomputed from the bounds snapshot taken when the region was fresh (what a fresh region answers), and at the
    end the region's bounds / quadkeys must be unchanged.  `ops` (replay) fixes the sequence."""
    import contextlib
    import io
    r, keys = g.region, g.keys
    n = len(keys)
    if n == 0 or n > 400:
        return
    b0 = qt_bounds(r).copy()
    k0 = list(keys)
    try:
        fresh = _build(g.kind, g.params).region
        area0 = numpy.array(fresh.get_cell_area(), dtype=float, copy=True)
        mid0 = numpy.array(fresh.midpoints(), dtype=float, copy=True)
    except Exception as ex:
        run.mismatch(_case(g, check="session"), f"{type(ex).__name__}: {ex}", "a second region from the same arguments")
        return
    gaps = None
    held = {}
    seq = []
    if ops is None:
        ops = [rng.choice(SESSION_OPS) for _ in range(steps)]
        pts_src = [tuple(p) for k in (rng.sample(keys, min(n, 6))) for h in ("corners", "mid") for p in tile_points(rng, k, g.D, h)]
        pts_src += [(180.0, 0.0), (0.0, 89.0), (float("nan"), 1.0)]
        plan = [(op, [rng.choice(pts_src) for _ in range(rng.randint(1, 5))], rng.randrange(1 << 30)) for op in ops]
    else:
        plan = [(op, [tuple(float.fromhex(v) for v in q) for q in pts], sd) for op, pts, sd in ops]

    def fail(i, what):
        case = _case(g, check="session", ops=[[op, [[hexs(a), hexs(c)] for a, c in pts], sd] for op, pts, sd in plan[:i + 1]])
        run.oracle_failure(case, f"step {i} ({plan[i][0]}) after {[q[0] for q in plan[:i]]}: {what}")

    for i, (op, pts, sd) in enumerate(plan):
        try:
            with contextlib.redirect_stdout(io.StringIO()):
                if op in ("index", "index_int"):
                    for lon, lat in pts:
                        if op == "index_int":
                            if not (lon == lon and lat == lat and abs(lon) < 1e9 and abs(lat) < 1e9):
                                continue
                            lon, lat = float(int(lon)), float(int(lat))
                        got = _loc(r, lon, lat, as_int=(op == "index_int"))
                        exp = _expected_cell(b0, lon, lat)
                        if got != exp:
                            fail(i, f"get_index_of({lon!r},{lat!r}) = {got}, a fresh region gives {exp}")
                elif op in ("index_array", "edit_index_array"):
                    lons, lats = numpy.array([q[0] for q in pts]), numpy.array([q[1] for q in pts])
                    got = r.get_index_of(lons, lats)
                    exp = [v for v in (_expected_cell(b0, lo, la) for lo, la in pts) if v is not None]
                    if [int(v) for v in numpy.asarray(got).ravel().tolist()] != exp:
                        fail(i, f"get_index_of(arrays) = {numpy.asarray(got).tolist()}, a fresh region gives {exp}")
                    if op == "edit_index_array" and isinstance(got, numpy.ndarray) and got.size:
                        got[...] = 0                      # the caller scribbles over the returned index array
                elif op in ("masked", "edit_masked"):
                    mres = r.get_masked([q[0] for q in pts], [q[1] for q in pts])
                    got = [bool(v) for v in numpy.asarray(mres).ravel().tolist()]
                    exp = [_expected_cell(b0, lo, la) is None for lo, la in pts]
                    if got != exp:
                        fail(i, f"get_masked = {got}, a fresh region gives {exp}")
                    if op == "edit_masked" and isinstance(mres, numpy.ndarray) and mres.size:
                        mres[...] = ~mres if mres.dtype == bool else 1
                elif op == "rejected_call":
                    kind_ = int(numpy.random.default_rng(sd).integers(0, 4))
                    try:
                        if kind_ == 0:
                            r.get_index_of([1.0, 2.0, 3.0], [1.0])                 # coordinate arrays of different lengths
                        elif kind_ == 1:
                            r.get_cartesian(numpy.ones(n + 3))                      # data of the wrong length
                        elif kind_ == 2:
                            r.get_location_of([n + 10 ** 6])                        # an index beyond the last cell
                        else:
                            r.get_masked([1.0, 2.0], [1.0, "x"])                    # a non-numeric latitude
                        run.count("session:rejected-call:accepted")
                    except Exception as ex_:
                        run.count("session:rejected-call:" + type(ex_).__name__)
                elif op == "edit_bbox":
                    bb_ = r.get_bbox()
                    if isinstance(bb_, (list, numpy.ndarray)):      # a mutable bounding box handed out: the caller scribbles on it
                        for t_ in range(len(bb_)):
                            bb_[t_] = 0.0
                elif op == "reuse_arrays":
                    # the caller keeps ONE pair of coordinate arrays, overwrites it in place and asks again
                    fin = [q for q in pts if q[0] == q[0] and q[1] == q[1]] or [(0.0, 0.0)]
                    if "own" not in held or len(held["own"][0]) != len(fin):
                        held["own"] = (numpy.zeros(len(fin)), numpy.zeros(len(fin)))
                    held["own"][0][:] = [q[0] for q in fin]
                    held["own"][1][:] = [q[1] for q in fin]
                    snap = (held["own"][0].copy(), held["own"][1].copy())
                    got = [int(v) for v in numpy.asarray(r.get_index_of(held["own"][0], held["own"][1])).ravel().tolist()]
                    exp = [v for v in (_expected_cell(b0, lo, la) for lo, la in fin) if v is not None]
                    if got != exp:
                        fail(i, f"get_index_of on the caller's re-used (overwritten in place) arrays = {got}, the new content lies in {exp}")
                    if not (numpy.array_equal(held["own"][0], snap[0]) and numpy.array_equal(held["own"][1], snap[1])):
                        fail(i, "get_index_of modified the caller's coordinate arrays")
                elif op in ("index_keyword", "index_one_element"):
                    for lon, lat in pts:
                        if not (lon == lon and lat == lat):
                            continue
                        exp = _expected_cell(b0, lon, lat)
                        if op == "index_keyword":
                            got = r.get_index_of(lons=float(lon), lats=float(lat))
                            got = None if numpy.size(got) == 0 else int(got)
                        else:
                            form = numpy.random.default_rng(sd).integers(0, 2)
                            arg = ([float(lon)], [float(lat)]) if form == 0 else (numpy.array([lon]), numpy.array([lat]))
                            res_ = numpy.asarray(r.get_index_of(*arg)).ravel().tolist()
                            got = None if len(res_) == 0 else (int(res_[0]) if len(res_) == 1 else res_)
                        if got != exp:
                            fail(i, f"get_index_of ({op}) of ({lon!r},{lat!r}) = {got}, a fresh region gives {exp}")
                elif op in ("cartesian", "edit_cartesian"):
                    data = numpy.random.default_rng(sd).uniform(1, 2, n)
                    exp = _brute_cartesian(b0, data)
                    has_gap = any(v is None for row in exp for v in row)
                    try:
                        got = numpy.asarray(r.get_cartesian(data), dtype=float)
                    except Exception as ex:
                        got = None
                        if not has_gap:
                            fail(i, f"get_cartesian raised {type(ex).__name__} although every lattice point lies in a cell")
                    if got is not None:
                        gl = [[None if v != v else v for v in row] for row in got.tolist()]     # NaN = no cell there
                        if gl != exp:
                            fail(i, "get_cartesian differs from the values of the cells containing the lattice points")
                        if op == "edit_cartesian":
                            got[...] = -1.0               # the caller overwrites the returned grid
                            held["cart"] = got
                elif op == "bbox":
                    got = [float(v) for v in r.get_bbox()]
                    exp = [float(b0[:, 0].min()), float(b0[:, 2].max()), float(b0[:, 1].min()), float(b0[:, 3].max())]
                    if got != exp:
                        fail(i, f"get_bbox = {got}, a fresh region gives {exp}")
                elif op in ("area", "edit_area"):
                    got = r.get_cell_area()
                    if not numpy.array_equal(numpy.asarray(got, dtype=float), area0):
                        fail(i, "get_cell_area differs from what a fresh region returns")
                    if op == "edit_area" and isinstance(got, numpy.ndarray) and got.size:
                        got[...] = 0.0                    # the caller zeroes the returned array (it aliases region.cell_area)
                elif op in ("origins", "edit_origins"):
                    got = r.origins()
                    if not numpy.array_equal(numpy.asarray(got, dtype=float), b0[:, :2]):
                        fail(i, "origins() differs from the (west, south) corners of a fresh region")
                    if op == "edit_origins" and isinstance(got, numpy.ndarray) and got.size:
                        got[...] = 0.0
                elif op in ("midpoints", "edit_midpoints"):
                    mp_ = r.midpoints()
                    if not numpy.array_equal(numpy.asarray(mp_, dtype=float), mid0):
                        fail(i, "midpoints() differs from what a fresh region returns")
                    if op == "edit_midpoints" and isinstance(mp_, numpy.ndarray) and mp_.size:
                        mp_[...] = 0.0
                elif op in ("to_dict", "edit_dict"):
                    d = r.to_dict()
                    if [(q["lon"], q["lat"]) for q in d["polygons"]] != [(float(v[0]), float(v[1])) for v in b0[:, :2]]:
                        fail(i, "to_dict()['polygons'] differs from the (west, south) corners of a fresh region")
                    if op == "edit_dict":                 # the caller derives a shifted twin from the dictionary in place
                        for q in d["polygons"]:
                            q["lon"] += 1.0
                            q["lat"] -= 1.0
                        d["polygons"].reverse()
                        d["name"] = "twin"
                        held["dict"] = d
                elif op == "location_of":
                    idx = [numpy.random.default_rng(sd).integers(0, n) for _ in range(3)]
                    got = [tuple(float(v) for v in q.origin) for q in r.get_location_of([int(v) for v in idx])]
                    if got != [(float(b0[j, 0]), float(b0[j, 1])) for j in idx]:
                        fail(i, "get_location_of returns polygons of other cells than a fresh region")
        except Exception as ex:
            fail(i, f"raised {type(ex).__name__}: {ex}")
        seq.append(op)
    if not numpy.array_equal(qt_bounds(r), b0) or [str(k) for k in r.quadkeys] != k0:
        case = _case(g, check="session", ops=[[op, [[hexs(a), hexs(c)] for a, c in pts], sd] for op, pts, sd in plan])
        run.oracle_failure(case, f"the region's bounds / quadkeys changed during the read-only session {seq}")
    run.count("session")
    run.extra["session_steps"] = run.extra.get("session_steps", 0) + len(plan)
    run.case(_case(g, check="session", nsteps=len(plan)) if n <= 64 else dict(kind=g.kind, check="session", ncells=n, nsteps=len(plan)),
             ("session", g.kind, _pkey(g), tuple(seq)) if len(set(seq)) >= 4 else None)


def guarded(run, g, what, fn, *a, **kw):
    """a deviation of the implementation that makes a check routine itself fail (unexpected shape / type / exception) is a
    reported difference with the grid as replay — never a harness crash"""
    try:
        return fn(*a, **kw)
    except Exception as ex:
        import traceback
        tb = traceback.extract_tb(ex.__traceback__)[-1]
        run.mismatch(_case(g, check=what), f"{type(ex).__name__}: {ex} (at {os.path.basename(tb.filename)}:{tb.lineno})"[:300],
                     f"{what}: outputs of the expected shape and type")
        return None


def big_keyset(rng):
    """more than 2^16 cells, not a multiple of 2^16: every zoom-8 tile, some of them replaced by their four children"""
    keys = ["".join(str((i >> (2 * (7 - j))) & 3) for j in range(8)) for i in range(4 ** 8)]
    split = set(rng.sample(range(len(keys)), rng.randint(700, 1500)))
    out = []
    for i, k in enumerate(keys):
        if i in split:
            out += [k + c for c in "0123"]
        else:
            out.append(k)
    return out


def check_big(run, drv, pend, rng, seed=None):
    """SIZES: a grid of more than 65 536 cells (ndarray of keys through from_quadkeys); queries that land in cells with index
    > 65 535 (scalar, list and ndarray forms, get_masked, filter_spatial); areas add up; bounding box"""
    seed = rng.randrange(1 << 30) if seed is None else seed
    g = _try_build(run, "bigkeys", dict(seed=seed))
    if g is None:
        return
    run.count("grid-big")
    run.extra["big_grid_cells"] = len(g.keys)
    n = len(g.keys)
    case = _case(g, check="big")
    b = qt_bounds(g.region)
    if b.shape != (n, 4) or n <= 65536:
        run.oracle_failure(case, f"a grid built from {n} distinct keys has bounds of shape {b.shape}")
        return
    import random
    prng = random.Random(seed + 1)
    hi = prng.sample(range(65536, n), 24) + [n - 1, 65536, 65535, 0]
    pts = []
    for i in hi:
        pts += [(float(b[i, 0]), float(b[i, 1])), (float((b[i, 0] + b[i, 2]) / 2), float((b[i, 1] + b[i, 3]) / 2))]
    pts += [(180.0, 0.0), (0.0, 86.0)]
    guarded(run, g, "big", check_queries, run, drv, pend, g, pts, True, True, "big")
    try:
        area = numpy.asarray(g.region.get_cell_area(), dtype=float)
        bb = [float(v) for v in g.region.get_bbox()]
    except Exception as ex:
        run.oracle_failure(case, f"get_cell_area / get_bbox raised {type(ex).__name__}: {ex}")
        return
    E, _ = edges(9)
    band = 4 * math.pi * R_KM ** 2 * math.sin(math.radians(E[0]))
    if area.shape != (n,) or not abs(math.fsum(area.tolist()) - band) <= 1e-9 * band:
        run.oracle_failure(case, "cell areas of the > 2^16-cell grid do not add up to the band area")
    if bb != [-180.0, 180.0, E[-1], E[0]]:
        run.oracle_failure(case, f"bounding box of the > 2^16-cell covering grid is {bb}")
    run.case(case, ("big", seed))


SIZE_THRESHOLDS = (500, 2000, 5000, 65536)

# Call forms of get_index_of on which the UNCHANGED code misbehaves and that wait for a decision (genuine-defect candidate, see
# notes/C17.md): not generated while listed; delete the entry and `index_other_forms` of the session generates them.
AWAITING_DECISION = [
    dict(id="W-C17-1", cls="get_index_of-tuple-0d-numpy-scalar",
         what="QuadtreeGrid2D.get_index_of dispatches on isinstance(lons, (list, numpy.ndarray)) / (int, float): tuples, numpy.float32 "
              "and numpy integer scalars fall through and return None (no cell, no error), a 0-d array raises TypeError: len() of unsized "
              "object. Generated and judged: Python float / int scalars, numpy.float64 scalars, lists, ndarrays, 1-element lists / arrays, "
              "positional and keyword form. Proposed patch: `lons, lats = numpy.atleast_1d(lons), numpy.atleast_1d(lats)` for everything "
              "that is not a Python / numpy scalar, and numbers.Real for the scalar branch."),
]


def long_points(rng, g, n):
    """n query points for a LONG array call: a filler of ordinary interior points and, at the very start, around every size threshold
    below n and at the end, the interesting ones: points exactly on horizontal / vertical tile edges (cell corners, latitude 0.0,
    a cell's south / north bound), a hair (1 ulp, 1e-13, 4e-12, 1e-9 degrees) on either side of an edge, duplicates, and points
    in no cell (antimeridian, beyond the latitude limits, gaps)"""
    b = qt_bounds(g.region)
    m = len(b)
    sel = b[[rng.randrange(m) for _ in range(min(m, 12))]]
    special = []
    for w, s_, e, n_ in sel.tolist():
        mx, my = (w + e) / 2, (s_ + n_) / 2
        special += [(w, s_), (w, n_), (e, s_), (mx, s_), (mx, n_), (w, my), (e, my)]
        for d in (1e-13, 4e-12, 1e-9):
            special += [(e - d, my), (w - d, my), (w + d, my), (mx, s_ - d), (mx, s_ + d), (mx, n_ - d)]
        special += [(next_down(e), my), (next_down(w), my), (mx, next_down(s_)), (mx, next_down(n_)), (mx, next_up(s_))]
    special += [(0.0, 0.0), (10.0, 0.0), (-10.0, -0.0), (0.0, 10.0), (-0.0, -10.0), (180.0, 10.0), (-180.0, 10.0), (181.0, 0.0),
                (360.0, 0.0), (10.0, 86.0), (10.0, -86.0), (5e-324, 5e-324), (-5e-324, -5e-324), (45.0, 66.51326044311186)]
    special += [special[0], special[3], special[3]]                       # duplicates
    fill_src = [((w + e) / 2 + (e - w) * f, (s_ + n_) / 2 + (n_ - s_) * f2) for w, s_, e, n_ in sel.tolist()
                for f in (-0.25, 0.0, 0.3) for f2 in (-0.3, 0.0, 0.2)]
    pts = [fill_src[i % len(fill_src)] for i in range(n)]
    spots = [0, 1, 2, n - 1, n - 2, n // 2]
    for T in SIZE_THRESHOLDS + (131072,):
        spots += [T - 1, T, T + 1, T // 2]
    spots = [i for i in spots if 0 <= i < n]
    k = 0
    for i in spots + list(range(3, min(n, 3 + len(special)))):
        pts[i] = special[k % len(special)]
        k += 1
    return [(float(a), float(c)) for a, c in pts]


def check_long_arrays(run, drv, pend, g, rng, n, pts=None, seed=None):
    """SIZE THRESHOLDS of the array lookups: one call with n points (list or ndarray, positional or by keyword) must give, point for
    point, what the same points give one at a time / in small pieces (= containment in the implementation's own bounds), the
    interesting points sitting in EARLY positions and around 500 / 2000 / 5000 / 2^16; get_masked on the same arrays; the inputs
    bit-for-bit unchanged; the model on a sample"""
    r = g.region
    b = qt_bounds(r)
    import random as _random
    if seed is None:
        seed = rng.randrange(1 << 30)
    rng = _random.Random(seed)          # the points are a function of (grid, n, seed): replayable without storing 10^5 points
    pts = long_points(rng, g, n) if pts is None else pts
    n = len(pts)
    lons = numpy.array([q[0] for q in pts], dtype=float)
    lats = numpy.array([q[1] for q in pts], dtype=float)
    # expectation, vectorised over cells (first listed cell containing the point), independent of the implementation's lookup
    exp = numpy.full(n, -1, dtype=numpy.int64)
    for j in range(len(b) - 1, -1, -1):
        inside = (lons >= b[j, 0]) & (lons < b[j, 2]) & (lats >= b[j, 1]) & (lats < b[j, 3])
        exp[inside] = j
    want = exp[exp >= 0].tolist()
    small = dict(kind=g.kind, params=g.params, check="long", n=n, seed=seed)
    run.count(f"long-array:{'>2^16' if n > 65536 else '>5000' if n > 5000 else '>2000' if n > 2000 else '>500' if n > 500 else 'short'}")
    forms = [("ndarray", lambda: r.get_index_of(lons.copy(), lats.copy())), ("list", lambda: r.get_index_of(lons.tolist(), lats.tolist()))]
    if n <= 6000:
        forms.append(("keyword", lambda: r.get_index_of(lons=lons.copy(), lats=lats.copy())))
    if n > 20000:
        forms = forms[:1] if rng.random() < 0.5 else forms[1:2]
    for name, f in forms:
        try:
            got = [int(v) for v in numpy.asarray(f()).ravel().tolist()]
        except Exception as ex:
            got = f"raised {type(ex).__name__}: {ex}"
        if got != want:
            where = "?"
            if isinstance(got, list):
                # first point whose cell differs (unlocated points are dropped from the result)
                loc_pos = numpy.flatnonzero(exp >= 0)
                m_ = min(len(got), len(want))
                d_ = next((t for t in range(m_) if got[t] != want[t]), m_)
                if d_ < len(loc_pos):
                    i0 = int(loc_pos[d_])
                    where = f"first difference at position {i0}: point ({lons[i0]!r}, {lats[i0]!r}) lies in cell {int(exp[i0])}"
                else:
                    where = f"{len(got)} indices for {len(want)} located points"
            run.oracle_failure(dict(small, form=name),
                               f"get_index_of({name} of {n} points) differs from the per-point containment in the cells' bounds — {where}; "
                               f"{str(got)[:80]}")
            return
    # caller-owned arrays: unchanged by the call; changed IN PLACE by the caller, the next call answers for the new content
    a_lon, a_lat = lons.copy(), lats.copy()
    try:
        if n > 20000:           # the very long call is made once (time); the caller-owned-array checks run on the shorter ones
            raise StopIteration
        r.get_index_of(a_lon, a_lat)
        if not (numpy.array_equal(a_lon, lons, equal_nan=True) and numpy.array_equal(a_lat, lats, equal_nan=True)):
            run.oracle_failure(small, "get_index_of modified the coordinate arrays it was given")
        a_lon[:] = lons[::-1]
        a_lat[:] = lats[::-1]
        got2 = [int(v) for v in numpy.asarray(r.get_index_of(a_lon, a_lat)).ravel().tolist()]
        if got2 != exp[::-1][exp[::-1] >= 0].tolist():
            run.oracle_failure(small, f"the caller reversed its coordinate arrays in place ({n} points): the second get_index_of call does "
                                      f"not answer for the new content")
        m = numpy.asarray(r.get_masked(lons.copy(), lats.copy())).ravel()
        if [bool(v) for v in m.tolist()] != (exp < 0).tolist():
            run.oracle_failure(small, f"get_masked on {n} points is not True exactly where no cell contains the point")
    except StopIteration:
        pass
    except Exception as ex:
        run.oracle_failure(small, f"array lookups on {n} points raised {type(ex).__name__}: {ex}")
    run.case(None, ("long", _pkey(g), n))
    idx = list(range(min(n, 40))) + [i for T in SIZE_THRESHOLDS for i in (T - 1, T, T + 1) if i < n]
    units = [to_unit(lons[i], lats[i], g.D) for i in idx]
    if len(g.keys) <= 2000:
        pend.append(("locate", g, dict(small, op="c17_locate", what="long-array sample"),
                     drv.ask(f"c17_locate {','.join(g.keys)} {pts_arg(units)}"), [None if exp[i] < 0 else int(exp[i]) for i in idx]))


def _try_build(run, kind, params):
    """constructor failures are reported (replay = the construction parameters), not harness crashes"""
    if run.hist.get("build:cut-off", 0) >= 2 and kind in ("catalog", "single"):
        run.count("build:skipped-after-two-cut-offs")      # the runaway is reported (with replays); no need to sit through more
        return None
    try:
        g_ = _build(kind, params)
        if g_.poisoned is not None:
            run.count(f"poison:{params['poison']}:{g_.poisoned}")
        if g_.copied is not None:
            run.count(f"region-copy:{params['copy']}:{'ok' if g_.copied else 'unsupported-by-the-tree'}")
        if params.get("subclass"):
            run.count(f"user-catalog-subclass:{params['subclass']}")
        return g_
    except Runaway as ex:
        run.count("build:cut-off")
        run.oracle_failure(dict(kind=kind, params=params, check="build"),
                           f"the implementation creates far more tiles than the refinement rule allows, or does not finish — {ex}")
        return None
    except Exception as ex:
        p = params if len(str(params)) < 4000 else {k: v for k, v in params.items() if k != "keys"}
        run.oracle_failure(dict(kind=kind, params=params, check="build"),
                           f"constructing the {kind} grid {str(p)[:200]} raised {type(ex).__name__}: {ex}")
        return None

def prun(drv, nproc=4, min_chars=200000):
    """`drv.run()` with the queued lines spread over `nproc` driver processes (every request line is independent and the
    driver is a pure function of the line): contiguous chunks of about equal text size, results concatenated in order"""
    lines = drv.lines
    total = sum(map(len, lines))
    if nproc <= 1 or len(lines) < 2 * nproc or total < min_chars:
        return drv.run()
    import threading
    chunks, cur, acc, target = [], [], 0, total / nproc
    for ln in lines:
        cur.append(ln)
        acc += len(ln)
        if acc >= target and len(chunks) < nproc - 1:
            chunks.append(cur)
            cur, acc = [], 0
    if cur:
        chunks.append(cur)
    res = [None] * len(chunks)

    def work(i):
        d = Driver()
        d.lines = chunks[i]
        try:
            res[i] = d.run()
        except BaseException as ex:       # re-raised in the caller's thread
            res[i] = ex
    th = [threading.Thread(target=work, args=(i,)) for i in range(len(chunks))]
    for t in th:
        t.start()
    for t in th:
        t.join()
    out = []
    for r_ in res:
        if isinstance(r_, BaseException):
            raise r_
        out += r_
    return out


def flush(run, drv, pend):
    out = prun(drv)
    for what, g, case, i, impl in pend:
        o = out[i]
        if what == "cartesian":
            rows, xs, ys = impl
            if o.startswith("E"):
                # the model raises on a gap (the code as it is); NaN at the gaps was judged by the oracle
                if rows != "E" and not any(v is None for row in rows for v in row):
                    run.mismatch(dict(case, op="c17_cartesian"), str(rows)[:200], o)
                continue
            mx, my, mr = o.split("|")
            E, _ = edges(g.D)
            mxs = [Fraction(t) * 360 - 180 for t in mx.split(",")]
            mys = [E[int(Fraction(t) * (1 << g.D))] for t in my.split(",")]
            mrows = [[int(t) for t in row.split(",")] for row in mr.split(";")]
            if rows == "E" or mrows != rows or mxs != [Fraction(x) for x in xs] or mys != ys:
                run.mismatch(dict(case, op="c17_cartesian"), str(rows)[:300], o[:300])
        elif what == "refine":
            # the order of the cells is not part of the property: compare as sorted lists
            model = [] if o == "-" else o.split(",")
            if sorted(model) != sorted(impl):
                run.mismatch(dict(case, op="c17_refine"), impl[:60], model[:60])
        elif what == "selfcount":
            # per leaf `key:num:sc`; cell order is not part of the property
            rows = [] if o == "-" else [t.split(":") for t in o.split(",")]
            if o in ("bad-op", "inconsistent") or any(len(r_) != 3 for r_ in rows):
                run.mismatch(dict(case, op="c17_selfcount"), str(impl)[:200], o[:200])
                continue
            mnum = {r_[0]: int(r_[1]) for r_ in rows}
            msc = {r_[0]: int(r_[2]) for r_ in rows}
            if mnum != impl or msc != impl:
                d = [k for k in sorted(set(mnum) | set(impl)) if mnum.get(k) != impl.get(k) or msc.get(k) != impl.get(k)][:5]
                run.mismatch(dict(case, op="c17_selfcount", first_diff=d), str([(k, impl.get(k)) for k in d]),
                             str([(k, mnum.get(k), msc.get(k)) for k in d]))
        elif what in ("locate", "getindex"):
            model = [] if o == "-" else [None if t == "n" else int(t) for t in o.split(",")]
            if model != impl:
                d = [j for j, (a, c) in enumerate(zip(model, impl)) if a != c][:5]
                run.mismatch(dict(case, op="c17_" + what, first_diff=d), impl[:80], model[:80])
        elif what == "bounds":
            rows = [] if o == "-" else o.split(",")
            ok = len(rows) == len(impl)
            for j, row in enumerate(rows if ok else []):
                w, e, yn, ys = (Fraction(t) for t in row.split(":"))
                la_n = math.degrees(math.atan(math.sinh(math.pi * (1 - 2 * float(yn)))))
                la_s = math.degrees(math.atan(math.sinh(math.pi * (1 - 2 * float(ys)))))
                if (Fraction(float(impl[j, 0])) != w * 360 - 180 or Fraction(float(impl[j, 2])) != e * 360 - 180
                        or impl[j, 3] != la_n or impl[j, 1] != la_s):
                    ok = False
                    break
            if not ok:
                run.mismatch(dict(case, op="c17_bounds"), [hexs(v) for v in impl[:4].ravel()], rows[:4])
        elif what == "masked":
            model = [] if o == "-" else [t == "1" for t in o.split(",")]
            if model != impl:
                run.mismatch(dict(case, op="c17_masked"), impl[:80], model[:80])
        elif what == "filterspatial":
            model = [] if o == "-" else (o if not o[0].isdigit() else [int(t) for t in o.split(",")])
            if model != impl:
                run.mismatch(dict(case, op="c17_filterspatial"), impl[:80], str(model)[:200])
        elif what == "origins":
            rows = [] if o == "-" else o.split(",")
            E, _ = edges(g.D)
            ok = len(rows) == len(impl)
            for j, row in enumerate(rows if ok else []):
                xw, ys = (Fraction(t) for t in row.split(":"))
                if Fraction(float(impl[j, 0])) != xw * 360 - 180 or float(impl[j, 1]) != E[int(ys * (1 << g.D))]:
                    ok = False
                    break
            if not ok:
                run.mismatch(dict(case, op="c17_origins"), [hexs(v) for v in impl[:3].ravel()], rows[:3])
        elif what == "locationof":
            model = "E" if o == "E" else ([] if o == "-" else o.split(","))
            if model != impl:
                run.mismatch(dict(case, op="c17_locationof"), impl, model)
        elif what == "bbox":
            E, _ = edges(g.D)
            if o == "E":
                run.mismatch(dict(case, op="c17_bbox"), impl, o)
            else:
                a, b_, c, d = (Fraction(t) for t in o.split(":"))
                n_ = 1 << g.D
                if [Fraction(impl[0]), Fraction(impl[1])] != [a * 360 - 180, b_ * 360 - 180] or \
                        [impl[2], impl[3]] != [E[int(c * n_)], E[int(d * n_)]]:
                    run.mismatch(dict(case, op="c17_bbox"), [hexs(v) for v in impl], o)
        elif what == "mercbounds":
            rows = [] if o == "-" else o.split(",")
            ok = len(rows) == len(impl)
            exact = 0
            for j, row in enumerate(rows if ok else []):
                w, s_, e, n_ = (float(numpy.array([int(t)], dtype=numpy.uint64).view(numpy.float64)[0]) for t in row.split(":"))
                if w != impl[j, 0] or e != impl[j, 2] or abs(s_ - impl[j, 1]) > 1e-12 or abs(n_ - impl[j, 3]) > 1e-12:
                    ok = False
                    break
                exact += int(s_ == impl[j, 1] and n_ == impl[j, 3])
            run.extra["mercbounds_rows"] = run.extra.get("mercbounds_rows", 0) + len(rows)
            run.extra["mercbounds_bitexact"] = run.extra.get("mercbounds_bitexact", 0) + exact
            if not ok:
                run.mismatch(dict(case, op="c17_mercbounds"), [hexs(v) for v in impl[:2].ravel()], rows[:2])
        elif what == "cellarea":
            vals = [] if o == "-" else [float(numpy.array([int(t)], dtype=numpy.uint64).view(numpy.float64)[0]) for t in o.split(",")]
            if not (len(vals) == len(impl) and all(abs(a - c) <= 1e-9 * abs(c) for a, c in zip(vals, impl))):
                run.mismatch(dict(case, op="c17_cellarea"), [hexs(v) for v in impl[:6]], [hexs(v) for v in vals[:6]])
        elif what == "savekeys":
            if o.split("|") != impl:
                run.mismatch(dict(case, op="c17_savekeys"), impl[:20], o[:200])
        elif what == "loadkeys":
            if ([] if o == "-" else o.split(",")) != impl:
                run.mismatch(dict(case, op="c17_loadkeys"), impl[:20], o[:200])
        elif what == "geoarea":
            got, a = impl
            val = float(numpy.array([int(o)], dtype=numpy.uint64).view(numpy.float64)[0])
            if not abs(val - got) <= geo_tol(got, a[0], a[2]):
                run.mismatch(dict(case, op="c17_geoarea"), hexs(got), hexs(val))
        elif what == "area":
            vals = [] if o == "-" else [numpy.array([int(t)], dtype=numpy.uint64).view(numpy.float64)[0] for t in o.split(",")]
            ok = len(vals) == len(impl) and all(abs(a - c) <= 1e-9 * abs(c) for a, c in zip(vals, impl))
            if not ok:
                run.mismatch(dict(case, op="c17_area"), [hexs(v) for v in impl[:6]], [hexs(v) for v in vals[:6]])


# ----------------------------------------------------------------------------- generators
def tile_points(rng, key, D, how):
    """boundary-directed query points of one tile, as (lon, lat) floats"""
    X, Y, z = key_xy(key)
    E, _ = edges(D)
    sh = D - z
    w, e = -180 + 360 * X / 2 ** z, -180 + 360 * (X + 1) / 2 ** z
    n_, s_ = E[Y << sh], E[(Y + 1) << sh]
    mx, my = (w + e) / 2, (n_ + s_) / 2
    pts = []
    if how == "corners":
        pts += [(w, s_), (w, n_), (e, s_), (e, n_)]
    elif how == "mid":
        pts += [(mx, s_), (mx, n_), (w, my), (e, my), (mx, my)]
    elif how == "ulp":
        pts += [(next_down(w), my), (next_down(e), my), (mx, next_down(n_)), (mx, next_down(s_)), (mx, next_up(s_)),
                (next_down(e), next_down(n_)), (w, next_down(s_))]
    else:
        pts += [(rng.uniform(w, e), rng.uniform(s_, n_))]
    return pts


def special_points(rng, D):
    E, _ = edges(D)
    top, bot = E[0], E[-1]
    out = []
    for lon in (-180.0, 180.0, next_down(180.0), next_up(-180.0), 0.0, -0.0, 181.0, -181.0, rng.uniform(-180, 180)):
        for lat in (top, bot, next_down(top), next_up(top), next_down(bot), next_up(bot), LATMAX, -LATMAX, 0.0, 86.0, -86.0,
                    90.0, -90.0, rng.uniform(-85, 85)):
            out.append((lon, lat))
    nan = float("nan")
    out += [(nan, 10.0), (10.0, nan), (nan, nan), (math.inf, 0.0), (0.0, math.inf), (-math.inf, -math.inf)]
    # signed zeros and subnormals on / next to the equator and the prime meridian (both are tile edges of every grid); longitudes
    # a full turn away (no wrap-around: they are in no cell)
    out += [(10.0, -0.0), (-0.0, -0.0), (5e-324, 5e-324), (-5e-324, -5e-324), (10.0, 5e-324), (10.0, -5e-324), (360.0, 10.0),
            (540.0, 0.0), (-360.0, 0.0), (float(numpy.float32(12.3)), float(numpy.float32(45.6)))]
    return out


def gen_queries(rng, g, budget):
    keys = g.keys
    pts = []
    hows = ["corners", "mid", "ulp", "in"]
    if len(keys) * 17 <= budget:
        for k in keys:
            for h in hows:
                pts += tile_points(rng, k, g.D, h)
    else:
        for _ in range(max(1, budget // 9)):
            k = rng.choice(keys)
            pts += tile_points(rng, k, g.D, rng.choice(hows))
    sp = special_points(rng, g.D)
    pts += sp if len(sp) <= budget else rng.sample(sp, max(12, budget // 4))
    # also corners of tiles one level deeper/shallower than a random cell (points on coarser/finer edges)
    for _ in range(min(8, budget // 8)):
        k = rng.choice(keys)
        kk = k[:-1] if len(k) > 1 and rng.random() < 0.5 else k
        pts += tile_points(rng, kk, g.D, "corners")
    return pts


def gen_events(rng, kind, n, zoom):
    """epicentres: uniform over the globe, clustered, or exactly on tile boundaries"""
    D = max(zoom, 1)
    E, _ = edges(D)
    ev = []
    if kind == "uniform":
        for _ in range(n):
            ev.append((rng.uniform(-180, 180), rng.uniform(-89, 89) if rng.random() < 0.1 else rng.uniform(-85, 85)))
    elif kind == "clustered":
        centres = [(rng.uniform(-170, 170), rng.uniform(-70, 70)) for _ in range(rng.randint(1, 4))]
        for _ in range(n):
            c = rng.choice(centres)
            s = rng.choice([0.01, 0.3, 3.0, 20.0])
            lo = (c[0] + rng.gauss(0, s) + 180) % 360 - 180
            la = max(-89.9, min(89.9, c[1] + rng.gauss(0, s)))
            ev.append((lo, la))
    else:  # boundary
        cx, cy = rng.randrange(1 << D), rng.randrange(1 << D)
        for _ in range(n):
            d = rng.randint(1, D)
            # concentrate around one tile so that thresholds are exceeded on its edges
            X = rng.randrange(1 << d) if rng.random() < 0.3 else min((cx >> (D - d)) + rng.randint(0, 1), (1 << d))
            Y = rng.randrange((1 << d) + 1) if rng.random() < 0.3 else min((cy >> (D - d)) + rng.randint(0, 1), (1 << d))
            lo = -180 + 360 * X / 2 ** d
            la = E[Y << (D - d)]
            m = rng.random()
            if m < 0.45:
                pass
            elif m < 0.6:
                lo = rng.uniform(-180, 180)
            elif m < 0.75:
                la = rng.uniform(-85, 85)
            elif m < 0.85:
                la = next_down(la) if rng.random() < 0.5 else next_up(la)
            elif m < 0.95:
                lo = next_down(lo) if rng.random() < 0.5 else next_up(lo)
            else:
                lo, la = rng.choice([180.0, -180.0]), rng.choice([E[0], E[-1], 0.0])
            ev.append((float(lo), float(la)))
        # duplicates: several events on one corner
        for _ in range(rng.randint(0, 6)):
            ev.append(rng.choice(ev))
    return ev


def gen_keyset(rng, nested=False):
    """random prefix-free key set: random refinement, some leaves dropped, shuffled"""
    leaves = ["0", "1", "2", "3"]
    maxd = rng.randint(2, 9)
    for _ in range(rng.randint(1, 40)):
        k = rng.choice(leaves)
        if len(k) < maxd:
            leaves.remove(k)
            leaves += [k + c for c in "0123"]
    drop = rng.random()
    if drop < 0.6:
        leaves = [k for k in leaves if rng.random() < rng.choice([0.5, 0.9])] or leaves[:1]
    rng.shuffle(leaves)
    if nested:
        k = rng.choice(leaves)
        extra = [k[:rng.randint(1, len(k))], k + rng.choice("0123"), rng.choice(leaves)]
        for e in extra:
            leaves.insert(rng.randrange(len(leaves) + 1), e)
    return leaves


def numeric_state(flag):
    """(k) numpy.errstate(divide='raise', invalid='raise') and a 3-digit decimal context around calls on valid inputs"""
    import contextlib
    import decimal
    st = contextlib.ExitStack()
    if flag:
        st.enter_context(numpy.errstate(divide="raise", invalid="raise"))
        ctx = st.enter_context(decimal.localcontext())
        ctx.prec = 3
    return st


def run_grid(run, drv, pend, g, rng, budget, partition_expected, prefix_free=True, cart_limit=3e6):
    numeric = rng.random() < 0.2
    if numeric:
        run.count("numeric-state:errstate+decimal")
    with numeric_state(numeric):
        _run_grid(run, drv, pend, g, rng, budget, partition_expected, prefix_free, cart_limit, numeric)


def _run_grid(run, drv, pend, g, rng, budget, partition_expected, prefix_free, cart_limit, numeric):
    guarded(run, g, "structure", check_structure, run, drv, pend, g, partition_expected)
    guarded(run, g, "order", check_order, run, drv, pend, g, rng, 12 if budget <= 300 else 24)
    guarded(run, g, "cartesian", check_cartesian, run, drv, pend, g, partition_expected, prefix_free, cart_limit)
    guarded(run, g, "api", check_api, run, drv, pend, g, rng, prefix_free)
    pts = gen_queries(rng, g, budget)
    if numeric:      # NaN / infinite coordinates are not valid inputs: under the raising error state they are left out
        pts = [q for q in pts if all(math.isfinite(v) for v in q)]
    # batches keep replays small
    B = 64
    for i in range(0, len(pts), B):
        guarded(run, g, "query", check_queries, run, drv, pend, g, pts[i:i + B], partition_expected, prefix_free, f"batch{i // B}")
    # histories on this one region object, AFTER all the calls above (themselves a history)
    guarded(run, g, "session", check_session, run, drv, pend, g, rng, 14 if budget <= 300 else 30)


def run(run, rng, tier):
    import time
    drv, pend = Driver(), []
    run.extra["awaiting_decision"] = [f"{w['id']} ({w['cls']}): {w['what']}" for w in AWAITING_DECISION]
    run.extra["copy_forms_unsupported_by_the_tree"] = COPY_UNSUPPORTED
    thorough = tier == "thorough"
    t0 = [time.time()]
    sect = run.extra.setdefault("section_s", {})

    def lap(name):
        sect[name] = round(time.time() - t0[0], 1)
        t0[0] = time.time()
    CL = 2e7 if thorough else 3e6     # size limit (lattice points x cells) of the Cartesian-view check
    # corpus first
    cdir = os.path.join(os.path.dirname(os.path.dirname(os.path.abspath(__file__))), "corpus", "C17")
    if os.path.isdir(cdir):
        import json
        for f in sorted(os.listdir(cdir)):
            if f.endswith(".json"):
                replay(run, json.load(open(os.path.join(cdir, f))), _drv=(drv, pend))
    lap("corpus")
    # 1. single resolution, all tiles
    for z in range(1, 9 if thorough else 8):
        extra7 = {}
        if z in (2, 4, 6):
            extra7["poison"] = rng.choice(POISON_KINDS)          # (i) a rejected builder call before this build
        if z in (1, 3, 5):
            extra7["copy"] = rng.choice(["copy", "deepcopy", "pickle"])      # (h) the grid is used through its copy
        g = _try_build(run, "single", dict(zoom=z, mags=True, **extra7) if z % 3 == 2 else dict(zoom=z, **extra7))
        if g is None:
            continue
        run.count("grid-single")
        # exact expectation of the key list: all 4^z keys of length z (their order is not part of the property)
        if len(g.keys) != 4 ** z or len(set(g.keys)) != 4 ** z or any(len(k) != z or set(k) - set('0123') for k in g.keys):
            run.oracle_failure(_case(g, check="single"), f"from_single_resolution({z}) is not the 4^{z} keys of length {z}")
        pend.append(("refine", g, _case(g, check="single-keys", op="c17_single"), drv.ask(f"c17_single {z}"), g.keys))
        budget = (len(g.keys) * 17 + 200) if z <= (5 if thorough else 4) else (1500 if thorough else 250)
        run_grid(run, drv, pend, g, rng, budget, True, cart_limit=CL)
        if z in (2, 3):
            for nlong in ((501, 2003) if z == 2 else (5007,)):
                guarded(run, g, "long", check_long_arrays, run, drv, pend, g, rng, nlong)
        if z == 2:     # once per run: more than 2^16 points (and 2^17 in the thorough tier) on a 16-cell grid
            guarded(run, g, "long", check_long_arrays, run, drv, pend, g, rng, 131075 if thorough else 65539)
    flush(run, drv, pend)
    drv, pend = Driver(), []
    lap("single-resolution")
    # 2. catalog-driven refinement
    combos = [(k, t, z) for k in ("uniform", "clustered", "boundary") for t in (0, 1, 5, 50) for z in range(1, 10)]
    if not thorough:
        combos = rng.sample(combos, 34) + [("boundary", 0, 9), ("clustered", 1, 9), ("boundary", 1, 3)]
    else:
        combos = combos * 3
    # the documented default `zoom=11` (zoom None = argument not passed): few events, so the grids stay small
    combos += [("clustered", 5, None), ("boundary", 1, None)] * (3 if thorough else 1)
    for kind, thr, zoom in combos:
        n = rng.choice([0, 1, 2, 7, 40, 150, 400] + ([1500] if thorough else [])) if kind != "boundary" \
            else rng.choice([3, 12, 60, 200] + ([800] if thorough else []))
        if zoom is None:
            n = rng.choice([6, 12, 30])
        ev = gen_events(rng, kind, n, zoom if zoom is not None else 11)
        extra7 = {}
        k7 = rng.random()
        if k7 < 0.3:
            extra7["subclass"] = rng.choice(["negated", "lon360"])          # (j) a user catalog class with consistent accessors
        elif k7 < 0.55:
            extra7["poison"] = rng.choice(POISON_KINDS)
        if rng.random() < 0.3:
            extra7["copy"] = rng.choice(["copy", "deepcopy", "pickle"])
        g = _try_build(run, "catalog", dict(threshold=thr, zoom=zoom, events=[[hexs(a), hexs(b)] for a, b in ev], gen=kind,
                                            **(dict(mags=True) if rng.random() < 0.25 else {}), **extra7))
        if g is None:
            continue
        run.count("grid-catalog-" + kind)
        check_refinement(run, drv, pend, g)
        guarded(run, g, "selfgrid", check_selfgrid, run, drv, pend, g)
        if len(g.keys) <= 400 and rng.random() < 0.35:
            guarded(run, g, "long", check_long_arrays, run, drv, pend, g, rng, rng.choice([503, 777, 2001, 5003]))
        run_grid(run, drv, pend, g, rng, 500 if thorough else 120, True, cart_limit=CL)
        # the events themselves as queries: each is located in the leaf that counted it
        if ev:
            check_queries(run, drv, pend, g, ev[:64], True, True, "events")
    flush(run, drv, pend)
    drv, pend = Driver(), []
    lap("catalog-refinement")
    # 3. random key sets through from_quadkeys
    for i in range(200 if thorough else 16):
        nested = i % 5 == 4
        keys = gen_keyset(rng, nested)
        if nested and i % 10 == 9:
            # the root key '' (mercantile: the whole square) among its descendants: first listed cell wins
            keys.insert(rng.randrange(1, len(keys) + 1), "")
        extra7 = {}
        if i % 3 == 1:
            extra7["copy"] = rng.choice(["copy", "deepcopy", "pickle"])
        if i % 4 == 2:
            extra7["poison"] = rng.choice(POISON_KINDS)
        g = _try_build(run, "quadkeys", dict(keys=keys, nested=nested, **(dict(mags=True) if i % 4 == 1 else {}), **extra7))
        if g is None:
            continue
        run.count("grid-quadkeys-nested" if nested else "grid-quadkeys")
        sk = sorted(set(keys))
        pf = len(set(keys)) == len(keys) and not any(sk[j + 1].startswith(sk[j]) for j in range(len(sk) - 1))
        run_grid(run, drv, pend, g, rng, 300 if thorough else 150, False, prefix_free=pf, cart_limit=CL)
        if len(g.keys) <= 400 and i % 3 == 0:
            guarded(run, g, "long", check_long_arrays, run, drv, pend, g, rng, rng.choice([501, 640, 2002, 5001]))
    lap("key-sets")
    # 3a. more than 2^16 cells
    for _ in range(3 if thorough else 1):
        check_big(run, drv, pend, rng)
    lap("big")
    # 3b. geographical_area_from_bounds on arbitrary bounds
    check_geoarea(run, drv, pend, rng, 4000 if thorough else 400)
    lap("geoarea")
    # 4. the shipped California grid
    try:
        g = _build("california", {})
    except Exception as e:  # file missing: say so, not a verdict
        run.assumptions.append(f"california quadkey file not loadable: {type(e).__name__}: {e}")
        g = None
    if g is not None:
        run.count("grid-california")
        run.extra["california_cells"] = len(g.keys)
        run_grid(run, drv, pend, g, rng, 3000 if thorough else 200, False, cart_limit=CL)
    flush(run, drv, pend)
    lap("california")


def replay(run, payload, _drv=None):
    case = payload.get("case", payload)
    drv, pend = _drv if _drv else (Driver(), [])
    if case.get("kind") == "geoarea":
        check_geoarea(run, drv, pend, None, 1, args=[float.fromhex(v) for v in case["args"]])
        if not _drv:
            flush(run, drv, pend)
        return
    if case.get("kind") == "bigkeys" and case.get("check") in ("big", "build"):
        check_big(run, drv, pend, None, seed=case["params"]["seed"])
        if not _drv:
            flush(run, drv, pend)
        return
    g = _try_build(run, case["kind"], case["params"])
    if g is None:
        return
    partition = case["kind"] in ("single", "catalog", "bigkeys")
    keys = g.keys
    sk = sorted(set(keys))
    pf = len(set(keys)) == len(keys) and not any(sk[j + 1].startswith(sk[j]) for j in range(len(sk) - 1))
    check_structure(run, drv, pend, g, partition)
    if case.get("check") == "cartesian":
        check_cartesian(run, drv, pend, g, partition, pf, 2e7)
    if case.get("check") == "session" and "ops" in case:
        check_session(run, drv, pend, g, None, 0, ops=case["ops"])
        if not _drv:
            flush(run, drv, pend)
        return
    if case.get("check") == "long":
        import random as _random
        check_long_arrays(run, drv, pend, g, None, int(case.get("n", 501)), seed=int(case.get("seed", 0)))
        if not _drv:
            flush(run, drv, pend)
        return
    if case.get("check") == "api":
        check_api(run, drv, pend, g, None, pf, indices=case.get("indices"))
    if case.get("check") == "order" and "points" in case:
        check_sequence(run, drv, pend, g, [tuple(float.fromhex(v) for v in p) for p in case["points"]], case.get("mode", "scalar"),
                       "replay")
        if not _drv:
            flush(run, drv, pend)
        return
    if case["kind"] == "catalog":
        check_refinement(run, drv, pend, g)
        check_selfgrid(run, drv, pend, g)
    pts = []
    if "point" in case:
        pts.append(tuple(float.fromhex(v) for v in case["point"]))
    for p in case.get("points", []):
        pts.append(tuple(float.fromhex(v) for v in p))
    if pts:
        check_queries(run, drv, pend, g, pts, partition, pf, "replay")
    if not _drv:
        flush(run, drv, pend)
