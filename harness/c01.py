"""C01 — Cartesian regions: one half-open cell per point.

Correspondence of csep.core.regions.CartesianGrid2D (get_index_of, get_masked, get_cartesian, bbox_mask / idx_map) and
CSEPCatalog.filter_spatial / spatial_counts with Model/Region.lean, plus a direct exact oracle (fractions.Fraction).
The float construction path (compute_vertex, Polygon.origin / centroid, bounding box, cleaner_range, midpoint hash, the loop of
_build_bitmask_vec) and the lookups get_bbox / get_location_of / midpoints / origins / get_cell_area / to_dict / from_dict are
compared with Model/RegionBuild.lean (ops c01_build, c01_area) on every region."""
import bisect
import glob
import json
import math
import os
from decimal import Decimal
from fractions import Fraction

import numpy

from .core import Driver, VERIF, frac
from . import c01_ops
from .c01_ops import AWAITING_DECISION  # noqa: F401  (input classes observed but not enforced, see notes/C01.md)

LEVEL_TEXT = ("Proof: on every lattice (any spacing, anchor, extent, holes, mask flags, duplicates, polygon order) the model of "
              "CartesianGrid2D attributes a point to polygon k exactly when k is the last listed polygon of an active "
              "bounding-box position whose half-open box contains the point, and reports it outside (masked / ValueError) "
              "exactly when no active cell contains it; boundaries open the upper cell; get_index_of, get_masked, "
              "filter_spatial, spatial_counts and get_cartesian are proved to be functions of that single partition "
              "(induction over the polygon list and the point list, no size bound). Tied to the code by a correspondence over "
              "random lattices and the shipped regions at every cell corner, edge midpoint, +-1..4 ulps around every edge, "
              "band-edge points, holes and all outsides. Soft64 layer: the float construction of a region (compute_vertex, "
              "Polygon.centroid, bounding box, cleaner_range, bin1d_vec of the midpoints, the loop) is modelled operation by "
              "operation and proved to hash the polygon of lattice cell (i, j) to (i, j) for every lattice with dh >= 2^-20, "
              "coordinates within +-2^10 and at most 2^16 columns / rows (midpoint_hash_correct, fromOrigins_hashes_lattice; "
              "bin1d_vec proved exact in the middle half of every bin; end to end for decimal lattices, where xs / ys are "
              "proved to be the nearest doubles of the decimal grid: decimal_lattice_construction), kernel-checked on every column and row of four shipped "
              "regions, and compared bit for bit with the real constructor on every generated and shipped region. Round 3: masked_region is proved to "
              "restrict the partition to the kept cells (same half-open boxes, old index = keptIdx of the new one), the four children of "
              "increase_grid_resolution to partition their parent cell, a region rebuilt from (origins, dh, mask) to be the same partition, and "
              "CSEPCatalog.filter_spatial — as a state machine over region argument, bound region, in_place, update_stats — to keep exactly the events the "
              "partition puts in a cell, idempotently, after which index lookup and per-cell counts cannot raise. Round 4: the number of decimals "
              "`cleaner_range` reads from repr() and the two repr values `from_origins` without dh subtracts are no longer inputs: they are computed by the model "
              "(ReprDec.numDecimals / DecimalText.reprValue, proved to read back), and the end-to-end construction theorem is re-proved for the model without "
              "any outside input, for the lattice Python PRINTS (repr_lattice_construction); global_region(dh) is modelled (two cleaner_range calls, "
              "itertools.product, compute_vertices) and global_region(0.1) is proved cell by cell for all 6 480 000 cells (global_region_construction); "
              "and C01 o C02: for every region on regular float64 edge arrays the cell the CODE computes with the float bin1d_vec on both axes IS the "
              "partition cell cellOf for every point outside the round-off band of its axes (float_lookup_exact), inside the band the float column is the "
              "exact one or its upper neighbour, never further and never below (float_col_adjacent).")
LEVEL_NOTE = ("The 1-D lookup is modelled by its exact meaning (last edge <= x, closed top); the float formula of bin1d_vec is "
              "the subject of C02. Inside the documented round-off band immediately below a boundary "
              "(eps*(6|x| + (2m+6)|a0|) + 2^-1022, eps = 2^-52) either adjacent cell is accepted, outside the band the answer must "
              "be exact. For the exact-layer op the bounding-box position (i, j) of each polygon is supplied by the harness from "
              "the lattice coordinates; the Soft64 op c01_build computes it from the origins like the code does and both are "
              "compared with bbox_mask / idx_map / get_cartesian. midpoint_hash_correct assumes the edge arrays lie within 2^-41 "
              "of the lattice (NearLattice; proved for decimal inputs by C02's cleanerRange_exact, checked by the kernel on the "
              "shipped arrays, validated bit for bit on every run); the number of decimals repr() shows is computed by the model since round 4 "
              "(compared with the implementation's own nested helper and with Decimal(repr(x)) on every run). Spacings that are not short decimals "
              "(1/30, 1/35, the noise of a float difference) take the fallback path of cleaner_range: modelled bit-exactly and generated, judged by the "
              "partition oracle with the lattice 'to rounding' (1e-12). Its displacement class (coarse anchor, fine noisy spacing) was decided a genuine "
              "defect (D49) and repaired in /repo: the model is of the repaired branch, the old one is a kernel-checked finding "
              "(finding_cleaner_fallback_displaced_region), the repaired noisy-spacing region is proved by kernel evaluation (repaired_noisy_region) and "
              "noisy_axis_starts_at_anchor shows the edge array of such an axis always starts at the smallest origin itself. "
              "Cell areas: closed form, additivity and positivity are proved over a field / the reals; the float evaluation "
              "(libm cosine) is compared to 1e-9 with a cancellation-aware absolute term.")
DESIGN_REF = "DESIGN.md §4 C01"
TECHNIQUE = "Lean 4 proof (exact layer) + differential correspondence + exact direct oracle"

THEOREMS = ["Region.col_eq_iff", "Region.row_eq_iff", "Region.col_eq_floor", "Region.boundary_opens",
            "Region.single_column_open", "Region.cells_disjoint", "Region.cellOf_eq_some_iff", "Region.cellOf_eq_none_iff",
            "Region.getIndexOf_ok_iff", "Region.getMasked_iff", "Region.index_error_iff_masked",
            "Region.index_error_iff_any_masked", "Region.unique_cell", "Region.apis_agree", "Region.cartesian_agrees",
            "Region.order_irrelevant", "Region.exact_mem_allowed", "Region.allowed_exact_outside_band",
            "Region.col_eq_iff_sorted", "Region.col_mono",
            "Region.midpoint_hash_correct", "Region.cell_centre_hash_exact", "Region.interior_bin_exact",
            "Region.fromOrigins_hashes_lattice", "Region.decimal_lattice_construction", "Region.inferred_spacing_exact", "Region.table_shipped_midpoints", "Region.location_of_index",
            "Region.location_of_negative_index", "Region.location_index_error", "Region.origins_roundtrip",
            "Region.area_eq_closed_form", "Region.area_additive", "Region.area_pos",
            # Properties/C01_Ops.lean: derived regions and catalog sessions
            "Region.window_inBox", "Region.masked_region_restricts", "Region.masked_region_old_index",
            "Region.masked_region_same_cell", "Region.masked_region_outside_iff", "Region.refinement_partition",
            "Region.regionEq_iff", "Region.rebuilt_from_origins_dh_mask", "Region.dict_roundtrip_same_partition",
            "Region.eq_same_partition", "Region.filter_spatial_events", "Region.filter_spatial_argument_wins",
            "Region.filter_spatial_depends_only_on", "Region.filter_spatial_no_region",
            "Region.filter_spatial_idem", "Region.filter_spatial_stats", "Region.filter_then_lookup_total",
            # Properties/C01_Repr.lean (round 4): num_decimals / repr inside the model; global_region
            "Region.repr_lattice_construction", "Region.repr_lattice_integers", "Region.inferred_spacing_repr",
            "Region.global_coordinates", "Region.global_region_construction", "Region.product_decimalGrid", "Region.mem_productN",
            "Region.finding_cleaner_fallback_displaced_region", "Region.repaired_noisy_region", "Region.noisy_axis_starts_at_anchor",
            # Properties/C01_Float.lean (round 4): C01 o C02 — the FLOAT lookups give the exact partition cell outside the band
            "Region.cnt_eq_countP", "Region.topF_eq_top64", "Region.binE_eq_ideal", "Region.allowed_closed_shape",
            "Region.float_col_exact", "Region.float_col_adjacent", "Region.float_lookup_exact", "Region.built_float_lookup_exact",
            # Properties/C01_Global.lean (round 4): global_region(dh) for every decimal spacing dividing 180 degrees
            "Region.global_region_construction_gen", "Region.global_region_1", "Region.global_region_05", "Region.global_region_025",
            "Region.global_region_2"]
TRUSTED = ["Lean 4.33 kernel", "axioms: propext, Classical.choice, Quot.sound at most",
           "(no longer trusted since round 4: that the float formula of bin1d_vec agrees with the exact lookup outside the round-off band is "
           "Region.float_col_exact / float_lookup_exact, under C02's decidable hypotheses RegularF64Grid / PointOK, which the driver evaluates on "
           "every float64 case of C02)",
           "bounding-box position (i, j) of each polygon for the exact-layer op computed by the harness from the generating "
           "lattice (cross-checked against region.idx_map / bbox_mask and against the Soft64 construction model c01_build)",
           "Soft64.fl64 is IEEE-754 binary64 round-to-nearest-even and Python/numpy + - * / round are that arithmetic "
           "(validated bit for bit on every region: bitexact_agreement)",
           "DecimalText.reprValue is the value of Python's repr(float) (shortest round-trip decimal, nearest to x among the shortest; proved to read "
           "back; compared with Decimal(repr(x)) on every run by C02's check_numdec) — num_decimals itself is computed by the model since round 4",
           "edge tables of the shipped regions in Proofs/Bin1dTables*.lean (compared with the real regions by C02's harness)",
           "libm cosine (cell areas compared numerically)",
           "Soft64 binary64 addition/subtraction for the upper side xs[-1] + (xs[1] - xs[0])",
           "matplotlib's point-in-path test behind Polygon.contains (input of the masked_region model; checked against an exact test on midpoints "
           "a quarter cell away from every polygon side)",
           "harness/c01.py, harness/c01_ops.py generators, exact oracle and comparison; driver parsing (Proto.lean)"]
RULE = ("lattices: spacing from {0.05,0.1,0.25,0.5,1,2} or a random 1-3 digit decimal, anchors negative / positive / "
        "zero-crossing / |anchor| << spacing, origins as nearest doubles of the decimal lattice or computed in binary64 "
        "(anchor + k*dh, a few ulps off), constructors from_origins with dh, from_origins without dh (spacing inferred from the "
        "first two, adjacent, origins) and CartesianGrid2D(polygons, dh, mask), shapes 1x1, 1xn, nx1, small, medium, holes (random, rectangular, whole "
        "column/row), duplicates, mask flags, shuffled / row-major / column-major polygon order, both constructors; shipped "
        "regions NZ, NZ-collection, Italy-collection, California-collection, global(1, 0.5); 12 % of the lattices have a spacing that is not a short "
        "decimal (1/3 ... 1/70, 0.1+0.2, 16-digit decimals: fallback path of cleaner_range), anchored at a multiple of the step or at a decimal fine enough "
        "for it (the displaced class is generated separately and only counted); global_region(dh) coordinates and edge arrays for dh = 0.1, 1 and one of "
        "0.25 / 0.5 / 2 against the model and the decimal grid. Points: every cell corner, edge "
        "midpoint and centre, +-1..4 ulps around every edge coordinate, 1.5x and 3x the band below each edge, hole centres, "
        "the four outsides, corners outside, far outside. A case is one (region, point); non-trivial when the point lies on "
        "or within 4 ulps / 3 bands of a cell boundary, in a hole, or outside; distinct by (region id, lon, lat). Two points of every "
        "query class of a region (inside, band, hole, flagged-out, outside W/E/S/N and corners) are also looked up singly as Python "
        "float, numpy.float64, 0-d array, 1-element list and 1-element array, and as one-event catalogs. Per region "
        "additionally: the construction path (vertices, origins, midpoints and their own-cell lookup, edge arrays, midpoint hash, "
        "bbox_mask / idx_map, get_bbox, get_location_of with negative and out-of-range indices, to_dict / from_dict, cell areas). "
        "Derived regions and sessions per region (harness/c01_ops.py): masked_region with a convex polygon (rectangle / cut corner) judged on its own "
        "edges and against the old region's partition; get_cartesian of float / int / list data vectors; == against rebuilt, reversed, shifted and "
        "shortened regions; increase_grid_resolution for factors 1, 2, 4, 8 and rejected 0, 3, 6 with the refined region's parent cells; grid_spacing; "
        "two filter_spatial sessions of 2-5 calls on one catalog object over region argument a / b / none x update_stats x in_place x bound region x compute_stats; "
        "one session of 4-9 interleaved calls on 2-5 catalogs SHARING three region objects (a, b = other mask, c = sub-lattice with its own bounding box): filters, "
        "counts, index lists, region reads, to_dict edited by the caller, masked_region, with every catalog recomputed from scratch and every region snapshotted after each "
        "step; +inf / -inf / NaN coordinates; catalogs of more than 2^16 events with more than 65535 in one cell; one lattice of more than 2^16 cells; the region "
        "factories' dh_scale / use_midpoint / magnitudes / name arguments and the constructors' name / magnitudes / vertex tolerance arguments")

EPS = Fraction(1, 2 ** 52)
TINY = Fraction(1, 2 ** 1022)  # gradual underflow of the quotient in bin1d_vec
D4 = "single-row-or-column-region:point-beyond-upper-side"
SHIPPED = ["nz", "nzc", "itc", "carelmc", "global1", "global05", "it", "carelm"]
# the rarely used arguments of the region factories: dh_scale (through increase_grid_resolution), use_midpoint=False, magnitudes=, name=
SHIPPED_VARIANTS = ["nz_s2", "nz_nomid", "nzc_args", "itc_s2", "global2_args"]
VARIANT_MAGS = [4.95, 5.95, 6.95]


# ----------------------------------------------------------------------------------------------- regions
def _shipped(name):
    from csep.core import regions
    f = dict(nz=regions.nz_csep_region, nzc=regions.nz_csep_collection_region,
             itc=regions.italy_csep_collection_region, carelmc=regions.california_relm_collection_region,
             it=regions.italy_csep_region, carelm=regions.california_relm_region,
             global1=lambda: regions.global_region(dh=1), global05=lambda: regions.global_region(dh=0.5),
             nz_s2=lambda: regions.nz_csep_region(dh_scale=2),
             nz_nomid=lambda: regions.nz_csep_region(use_midpoint=False),
             nzc_args=lambda: regions.nz_csep_collection_region(magnitudes=numpy.array(VARIANT_MAGS), name="variant"),
             itc_s2=lambda: regions.italy_csep_collection_region(dh_scale=2, magnitudes=VARIANT_MAGS),
             global2_args=lambda: regions.global_region(dh=2, name="variant", magnitudes=numpy.array(VARIANT_MAGS)))[name]
    return f()


def lattice_origins(spec):
    ax, ay, dh = Decimal(spec["ax"]), Decimal(spec["ay"]), Decimal(spec["dh"])
    imin = min(i for i, _ in spec["cells"])
    jmin = min(j for _, j in spec["cells"])
    if spec.get("origins") == "float":
        # origins the way user code often computes them: anchor + k * dh in binary64 (up to a few ulps off the decimal
        # lattice); the anchor itself (the lower-left corner of the bounding box) is the clean decimal
        fx, fy, fd = float(ax + imin * dh), float(ay + jmin * dh), float(dh)
        return [(fx + (i - imin) * fd, fy + (j - jmin) * fd) for i, j in spec["cells"]]
    return [(float(ax + i * dh), float(ay + j * dh)) for i, j in spec["cells"]]


def build_region(spec, origins=None):
    """returns (region, cells[(i, j)], flags[0/1]) ; cells are bounding-box lattice coordinates in polygon order.
    `origins`: the origin coordinates computed beforehand (the harness computes them with Decimal arithmetic, which must not run
    inside a lowered decimal context that is meant for the LIBRARY calls only)"""
    from csep.core.regions import CartesianGrid2D, compute_vertices
    from csep.models import Polygon
    if spec["kind"] == "shipped":
        region = _shipped(spec["name"])
        # shipped origins are `midpoint - dh/2` in floating point, i.e. up to a few ulps away from the clean decimal
        # edges xs / ys; the bounding-box position of a polygon is the nearest edge
        xs, ys = [float(x) for x in region.xs], [float(y) for y in region.ys]
        cells = []
        for p in region.polygons:
            lon, lat = float(p.origin[0]), float(p.origin[1])
            i = min(max(int(round((lon - xs[0]) / float(region.dh))), 0), len(xs) - 1)
            j = min(max(int(round((lat - ys[0]) / float(region.dh))), 0), len(ys) - 1)
            if abs(xs[i] - lon) > 4 * math.ulp(lon) or abs(ys[j] - lat) > 4 * math.ulp(lat):
                return region, None, None
            cells.append((i, j))
        pm = getattr(region, "poly_mask", None)      # shipped regions carry no per-cell mask
        flags = [1] * len(cells) if pm is None else [1 if m == 1 else 0 for m in pm]
        return region, cells, flags
    origins = lattice_origins(spec) if origins is None else origins
    dhf = float(Decimal(spec["dh"]))
    if spec.get("dh_int") and dhf == int(dhf):
        dhf = int(dhf)
    mask = spec.get("mask")
    kw = {}
    if spec.get("kwargs"):      # the rarely used constructor arguments name= / magnitudes=
        kw = dict(name="named-region", magnitudes=numpy.array(VARIANT_MAGS))
    if spec.get("ctor") == "polygons" or mask is not None:
        vt = spec.get("vtol")   # compute_vertices(..., tol=): the overlap tolerance of the polygons
        polys = [Polygon(b) for b in (compute_vertices(origins, dhf) if vt is None else compute_vertices(origins, dhf, tol=float(vt)))]
        region = CartesianGrid2D(polys, dhf, mask=None if mask is None else list(mask), **kw)
    elif spec.get("ctor") == "from_origins_nodh":
        # spacing inferred by the library from the first two origins (adjacent cells), regions.py:745-753
        region = CartesianGrid2D.from_origins(numpy.array(origins), **kw)
    else:
        region = CartesianGrid2D.from_origins(numpy.array(origins), dh=dhf, **kw)
    if kw and (region.name != "named-region" or region.magnitudes is None or [float(v) for v in region.magnitudes] != VARIANT_MAGS):
        raise ValueError(f"constructor arguments lost: name={region.name!r}, magnitudes={region.magnitudes!r}")
    imin = min(i for i, _ in spec["cells"])
    jmin = min(j for _, j in spec["cells"])
    cells = [(i - imin, j - jmin) for i, j in spec["cells"]]
    flags = [1] * len(cells) if mask is None else [1 if m == 1 else 0 for m in mask]
    return region, cells, flags


# ----------------------------------------------------------------------------------------------- exact oracle
class Axis:
    """exact 1-D partition on the float edge array, with the band of the property"""

    def __init__(self, edges, dh):
        self.e = [float(x) for x in edges]
        self.n = len(self.e)
        self.a0 = abs(Fraction(self.e[0]))
        if self.n >= 2:
            # the upper side the code compares against: bins[-1] + (bins[1] - bins[0]) in float64
            self.top = Fraction(float(numpy.float64(self.e[-1]) + (numpy.float64(self.e[1]) - numpy.float64(self.e[0]))))
        else:
            self.top = Fraction(self.e[0]) + Fraction(dh)
        self.cache = {}

    def exact(self, x, xf):
        c = bisect.bisect_right(self.e, x)
        if c == 0 or xf >= self.top:
            return None
        return c - 1

    def allowed(self, x):
        """(set of allowed indices (None = not in the box), exact index, in_band)"""
        r = self.cache.get(x)
        if r is not None:
            return r
        xf = Fraction(x)
        c = bisect.bisect_right(self.e, x)
        e = self.exact(x, xf)
        res = {e}
        b = Fraction(self.e[c]) if c < self.n else self.top
        if xf < b and b - xf <= EPS * (6 * abs(xf) + (2 * c + 6) * self.a0) + TINY:
            res.add(self.exact(float(b), b) if c < self.n else None)
        r = (res, e, len(res) > 1)
        self.cache[x] = r
        return r

    def band_at(self, m):
        """float width of the band below boundary m (for point generation)"""
        b = self.e[m] if m < self.n else float(self.top)
        return float(EPS * (6 * abs(Fraction(b)) + (2 * m + 6) * self.a0) + TINY)


class Oracle:
    def __init__(self, region, cells, flags):
        self.ax = Axis(region.xs, region.dh)
        self.ay = Axis(region.ys, region.dh)
        self.last, self.active, self.listed = {}, set(), {}
        for k, (c, f) in enumerate(zip(cells, flags)):
            self.last[c] = k
            self.listed.setdefault(c, []).append((k, f))
            if f == 1:
                self.active.add(c)

    def at(self, i, j):
        """the answer at a lattice position (for a position listed once: THE answer; listed several times: the code's choice,
        last polygon listed, active if one of them is valid)"""
        if i is None or j is None or (i, j) not in self.active:
            return "o"
        return self.last[(i, j)]

    def at_set(self, i, j):
        """every answer the PROPERTY leaves open at a position. The property speaks of 'any subset of a lattice': a position
        listed ONCE has one answer. The same position listed several times is outside that wording — which of the polygons
        (and, when one of them is flagged out, whether the position is active) is a choice of the implementation: any of them is
        accepted, so that another construction order (first instead of last writer) is not reported."""
        a = self.at(i, j)
        l = self.listed.get((i, j), []) if i is not None and j is not None else []
        if len(l) <= 1:
            return {a}
        if all(f != 1 for _, f in l):
            return {"o"}
        s = {a} | {k for k, _ in l}
        if any(f != 1 for _, f in l):
            s.add("o")
        return s

    def tolerated(self, lon, lat):
        """answers a CORRESPONDENCE difference is not reported for: what the property allows, plus — on a single column / row — the
        answers of the known finding D4 (open upper side), which the model reproduces and the direct oracle reports by signature"""
        s = {str(a) for a in self.allowed(lon, lat)[0]}
        fx, fy = Fraction(lon), Fraction(lat)
        if (self.ax.n == 1 and fx >= self.ax.top) or (self.ay.n == 1 and fy >= self.ay.top):
            sx = {0} if (self.ax.n == 1 and fx >= self.ax.top) else self.ax.allowed(lon)[0]
            sy = {0} if (self.ay.n == 1 and fy >= self.ay.top) else self.ay.allowed(lat)[0]
            s |= {str(a) for a in set().union(*[self.at_set(i, j) for i in sx for j in sy])}
        return s

    def allowed(self, lon, lat):
        sx, ex, bx = self.ax.allowed(lon)
        sy, ey, by = self.ay.allowed(lat)
        return set().union(*[self.at_set(i, j) for i in sx for j in sy]), self.at(ex, ey), (bx or by)


# ----------------------------------------------------------------------------------------------- points
def _ulps(x, k):
    for _ in range(abs(k)):
        x = math.nextafter(x, math.inf if k > 0 else -math.inf)
    return x


def axis_values(axis, rng, full):
    """boundary-directed coordinates of one axis: (value, is_boundary_directed)"""
    e, n = axis.e, axis.n
    top = float(axis.top)
    bnd = e + [top]
    idxs = range(len(bnd)) if full or len(bnd) <= 12 else sorted(set([0, 1, len(bnd) - 2, len(bnd) - 1] +
                                                                   rng.sample(range(len(bnd)), 8)))
    vals = []
    for m in idxs:
        b = bnd[m]
        w = axis.band_at(m)
        vals += [b] + [_ulps(b, k) for k in (1, 2, 3, 4, -1, -2, -3, -4)]
        vals += [b - 1.5 * w, b - 3 * w, b - 0.5 * w, b + 3 * w]
    mids = [(bnd[m] + bnd[m + 1]) / 2 for m in range(len(bnd) - 1)]
    h = bnd[1] - bnd[0]
    outs = [e[0] - h / 2, e[0] - 7 * h, top + h / 2, top + 9 * h, -1e12, 1e12]
    return vals, mids, outs


def make_points(orc, cells, rng, budget):
    ax, ay = orc.ax, orc.ay
    xv, xm, xo = axis_values(ax, rng, False)
    yv, ym, yo = axis_values(ay, rng, False)
    pts = []
    small = (len(xv) + len(xm)) * (len(yv) + len(ym)) <= budget
    if small:
        for x in xv + xm + xo:
            for y in yv + ym + yo:
                pts.append((x, y))
    else:
        xs_, ys_ = ax.e + [float(ax.top)], ay.e + [float(ay.top)]
        sel = cells if len(cells) <= 60 else rng.sample(cells, 60)
        for (i, j) in sel:  # corners, edge midpoints, centre of the cell
            cx = [xs_[i], (xs_[i] + xs_[i + 1]) / 2, xs_[i + 1]]
            cy = [ys_[j], (ys_[j] + ys_[j + 1]) / 2, ys_[j + 1]]
            pts += [(x, y) for x in cx for y in cy]
            pts += [(_ulps(cx[a], k), cy[b]) for a in (0, 2) for b in (0, 1, 2) for k in (-1, 1)]
            pts += [(cx[a], _ulps(cy[b], k)) for a in (0, 1, 2) for b in (0, 2) for k in (-1, 1)]
        allx, ally = xv + xm + xo, yv + ym + yo
        while len(pts) < budget:
            k = rng.random()
            if k < 0.4:
                pts.append((rng.choice(xv), rng.choice(ym + yv)))
            elif k < 0.8:
                pts.append((rng.choice(xm + xv), rng.choice(yv)))
            else:
                pts.append((rng.choice(allx), rng.choice(ally)))
    # hole centres (bounding-box positions without an active cell)
    act = orc.active
    holes = [(i, j) for i in range(ax.n) for j in range(ay.n) if (i, j) not in act]
    xs_, ys_ = ax.e + [float(ax.top)], ay.e + [float(ay.top)]
    for (i, j) in (holes if len(holes) <= 40 else rng.sample(holes, 40)):
        pts.append(((xs_[i] + xs_[i + 1]) / 2, (ys_[j] + ys_[j + 1]) / 2))
        pts.append((xs_[i], ys_[j]))
    # de-duplicate, keep order
    seen, out = set(), []
    for p in pts:
        if p not in seen and all(math.isfinite(t) for t in p):
            seen.add(p)
            out.append(p)
    return out


# ----------------------------------------------------------------------------------------------- implementation
def impl_answers(region, pts):
    """per point: polygon index or 'o'; from the vectorised get_masked and get_index_of. Also returns API disagreements."""
    lons = numpy.array([p[0] for p in pts])
    lats = numpy.array([p[1] for p in pts])
    problems = []
    masked = numpy.asarray(region.get_masked(lons, lats)).astype(bool)
    ans = ["o"] * len(pts)
    keep = numpy.where(~masked)[0]
    if len(keep):
        try:
            idx = region.get_index_of(lons[keep], lats[keep])
            for k, v in zip(keep, idx):
                ans[k] = int(v)
        except ValueError:
            # get_masked says inside, get_index_of says outside for at least one point: find them
            for k in keep:
                try:
                    ans[k] = int(region.get_index_of([lons[k]], [lats[k]])[0])
                except ValueError:
                    problems.append((int(k), "get_masked False but get_index_of raises ValueError"))
                    ans[k] = "o"
    return ans, masked, problems


def _catalog(region, pts):
    from csep.core.catalogs import CSEPCatalog
    data = [(str(k), 1000 * k, float(lat), float(lon), 10.0, 5.0) for k, (lon, lat) in enumerate(pts)]
    return CSEPCatalog(data=data, region=region)


def impl_catalog(region, pts):
    """filter_spatial survivors (positions) and spatial_counts (list or 'E')"""
    cat = _catalog(region, pts)
    try:
        sc = [int(v) for v in cat.spatial_counts()]
        if any(float(v) != int(v) for v in cat.spatial_counts()):
            sc = "non-integer"
    except ValueError:
        sc = "E"
    except Exception as e:  # any other exception class is not what the property promises
        sc = "EXC:" + type(e).__name__
    try:
        kept = cat.filter_spatial(region=region, in_place=False)
        fs = [int(i) for i in kept.get_event_ids()]
        cat2 = _catalog(region, pts)
        cat2.filter_spatial()  # in place, region bound to the catalog
        fs2 = [int(i) for i in cat2.get_event_ids()]
    except Exception as e:
        fs = fs2 = "EXC:" + type(e).__name__
    return sc, fs, fs2


# ----------------------------------------------------------------------------------------------- input forms
FORMS = [("float", float), ("numpy.float64", numpy.float64), ("0-d array", lambda v: numpy.array(v)),
         ("1-element list", lambda v: [v]), ("1-element array", lambda v: numpy.array([v]))]


def point_class(orc, p, inband):
    """query class of a point: where it lies relative to the bounding box (W/E, S/N), else inside / band / hole / flagged-out"""
    ex = orc.ax.exact(p[0], Fraction(p[0]))
    ey = orc.ay.exact(p[1], Fraction(p[1]))
    cx = "" if ex is not None else ("W" if p[0] < orc.ax.e[0] else "E")
    cy = "" if ey is not None else ("S" if p[1] < orc.ay.e[0] else "N")
    if cx or cy:
        return "outside-" + cy + cx
    if inband:
        return "band"
    if (ex, ey) in orc.active:
        return "inside"
    return "flagged-out" if (ex, ey) in orc.last else "hole"


def check_input_forms(run, base, region, orc, pts, ans, masked, rng, per_class=2):
    """get_index_of / get_masked on single points given as Python float, numpy.float64, 0-d array, 1-element list and
    1-element array must give what the array lookup gives for that point (index, or ValueError / masked when outside).
    Returns one point index per query class (for the one-event catalogs)."""
    classes = {}
    order = list(range(len(pts)))
    if rng is not None:
        rng.shuffle(order)
    for k in order:
        c = point_class(orc, pts[k], orc.allowed(pts[k][0], pts[k][1])[2])
        if len(classes.setdefault(c, [])) < per_class:
            classes[c].append(k)
    first = []
    for c in sorted(classes):
        first.append(classes[c][0])
        for k in classes[c]:
            p = pts[k]
            for fname, f in FORMS:
                scalar = fname in ("float", "numpy.float64", "0-d array")
                run.case(None, None)
                run.count("input-form:" + fname)
                try:
                    v = numpy.asarray(region.get_index_of(f(p[0]), f(p[1])))
                    single = int(v.ravel()[0]) if v.size == 1 and float(v.ravel()[0]) == int(v.ravel()[0]) else f"shape{v.shape}:{v.ravel()[:3]}"
                except ValueError:
                    single = "o"
                except Exception as e:
                    single = "EXC:" + type(e).__name__
                if single != ans[k]:
                    run.count("ORACLE-FAIL-input-form")
                    run.oracle_failure(dict(base, points=[[repr(p[0]), repr(p[1])]], form=fname),
                                       f"get_index_of of the single point ({p[0]!r}, {p[1]!r}) [{c}] given as {fname} is {single!r}; the array "
                                       f"lookup of the same point gives {ans[k]!r}")
                try:
                    m = numpy.asarray(region.get_masked(f(p[0]), f(p[1])))
                    m1 = bool(m.ravel()[0]) if m.size == 1 else f"shape{m.shape}"
                except (ValueError, TypeError) as e:
                    # numpy >= 2 rejects `numpy.where` of a 0-d array: get_masked does not accept scalars at all (every point)
                    m1 = "unsupported" if scalar else "EXC:" + type(e).__name__
                except Exception as e:
                    m1 = "EXC:" + type(e).__name__
                if m1 == "unsupported":
                    run.count("get_masked-scalar-unsupported")
                elif m1 != bool(masked[k]) or (single == "o") != m1:
                    run.count("ORACLE-FAIL-input-form")
                    run.oracle_failure(dict(base, points=[[repr(p[0]), repr(p[1])]], form=fname),
                                       f"get_masked of the single point ({p[0]!r}, {p[1]!r}) [{c}] given as {fname} is {m1!r}; the array lookup "
                                       f"gives masked={bool(masked[k])}, get_index_of {single!r}")
    return first



# ----------------------------------------------------------------------------------------------- one region
def region_key(spec):
    return json.dumps(spec, sort_keys=True) if spec["kind"] == "shipped" else \
        json.dumps([spec["ax"], spec["ay"], spec["dh"], spec["cells"], spec.get("mask"), spec.get("origins")])


def check_region(run, drv, pending, spec, pts=None, rng=None, budget=1500, arrays=True, ncat=4, tag="", build=True, ops=True,
                 ops_seed=None, ops_only=None):
    """guard: a value RETURNED by the implementation that the harness cannot use (an index out of range, an ill-typed or ill-shaped
    answer) is a failing case of the region it came from, never a harness crash (RuntimeError = harness self-check stays a crash)"""
    try:
        return _check_region(run, drv, pending, spec, pts=pts, rng=rng, budget=budget, arrays=arrays, ncat=ncat, tag=tag, build=build,
                             ops=ops, ops_seed=ops_seed, ops_only=ops_only)
    except (RuntimeError, KeyboardInterrupt, MemoryError):
        raise
    except Exception as e:
        import traceback
        fr = traceback.extract_tb(e.__traceback__)
        here = [f for f in fr if os.path.basename(f.filename) in ("c01.py", "c01_ops.py")]
        inner = os.path.realpath(fr[-1].filename) if fr else ""
        from .core import REPO
        if inner.startswith(os.path.realpath(REPO) + os.sep):
            raise           # raised INSIDE pyCSEP: core.py reports it (kind impl-exception)
        where = f"{os.path.basename(here[-1].filename)}:{here[-1].lineno}" if here else "?"
        base = dict(region=spec if spec["kind"] == "shipped" or len(spec.get("cells", [])) <= 700 else dict(spec), tag=tag)
        run.oracle_failure(dict(base, points=[[repr(p[0]), repr(p[1])] for p in (pts or [])[:20]], what="unusable-answer"),
                           f"the implementation returned a value the check could not use ({type(e).__name__}: {str(e)[:160]} at {where}): "
                           f"an out-of-range / ill-typed / ill-shaped answer")


def _check_region(run, drv, pending, spec, pts=None, rng=None, budget=1500, arrays=True, ncat=4, tag="", build=True, ops=True,
                  ops_seed=None, ops_only=None):
    try:
        region, cells, flags = build_region(spec)
    except Exception as e:
        if spec["kind"] == "shipped":
            run.extra.setdefault("shipped_unavailable", {})[spec["name"]] = f"{type(e).__name__}: {str(e)[:80]}"
            run.count("shipped-unavailable")
            return
        run.oracle_failure(dict(region=spec, points=[]), f"constructor raised {type(e).__name__}: {e}")
        return
    if spec["kind"] == "shipped" and spec["name"] in SHIPPED_VARIANTS:
        nm = spec["name"]
        probs = []
        if nm.endswith("_args") or nm == "itc_s2":
            if region.magnitudes is None or [float(v) for v in region.magnitudes] != VARIANT_MAGS:
                probs.append(f"magnitudes={region.magnitudes!r} (given {VARIANT_MAGS})")
        if nm.endswith("_args") and region.name != "variant":
            probs.append(f"name={region.name!r} (given 'variant')")
        if nm.endswith("_s2"):
            base_n = len(_shipped(nm[:-3]).polygons)
            if len(region.polygons) != 4 * base_n or abs(float(region.dh) - 0.05) > 1e-12:
                probs.append(f"dh_scale=2: {len(region.polygons)} cells of dh={region.dh!r} from {base_n} cells of 0.1")
        if nm == "nz_nomid":
            ref = _shipped("nz")
            d = numpy.asarray(region.origins(), dtype=float) - numpy.asarray(ref.origins(), dtype=float)
            if d.shape != (len(ref.polygons), 2) or numpy.abs(d - 0.05).max() > 1e-9:
                probs.append("use_midpoint=False: the origins are not the file's nodes (midpoint region shifted by dh/2)")
        if nm == "global2_args" and (len(region.polygons) != 180 * 90 or float(region.dh) != 2.0):
            probs.append(f"global_region(dh=2): {len(region.polygons)} cells, dh={region.dh!r}")
        run.case(None, None)
        run.count("shipped-variant:" + nm)
        for pr in probs:
            run.oracle_failure(dict(region=spec, points=[], what="factory arguments"), f"{nm}: {pr}")
    if spec["kind"] == "shipped":
        run.extra.setdefault("shipped_covered", [])
        if spec["name"] not in run.extra["shipped_covered"]:
            run.extra["shipped_covered"].append(spec["name"])
    base = dict(region=spec if spec["kind"] == "shipped" or len(spec["cells"]) <= 700 else dict(spec), tag=tag)
    if cells is None:
        run.oracle_failure(dict(base, points=[]), "a polygon origin is not one of the region's edge coordinates xs / ys")
        return
    nx, ny = len(region.xs), len(region.ys)
    # the edge arrays must be the cell origins themselves (lon_i is the lower side of cell i); shipped regions compute
    # their origins as midpoint - dh/2 in floating point and may be a few ulps off the edges
    off = 0
    for k, ((i, j), poly) in enumerate(zip(cells, region.polygons)):
        same = i < nx and j < ny and float(region.xs[i]) == float(poly.origin[0]) and float(region.ys[j]) == float(poly.origin[1])
        loose = spec["kind"] == "shipped" or spec.get("origins") == "float" or spec.get("noisy")
        # a spacing that is not a short decimal: the edges are the lattice to rounding (1e-12 of the largest coordinate)
        ulps = 4500 if spec.get("noisy") else 4
        if not same and loose and i < nx and j < ny and \
                abs(float(region.xs[i]) - float(poly.origin[0])) <= ulps * math.ulp(max(abs(float(region.xs[0])), abs(float(region.xs[-1])))) and \
                abs(float(region.ys[j]) - float(poly.origin[1])) <= ulps * math.ulp(max(abs(float(region.ys[0])), abs(float(region.ys[-1])))):
            off += 1
        elif not same:
            run.oracle_failure(dict(base, points=[], polygon=k),
                               f"edge arrays do not contain the origin of polygon {k}: origin={poly.origin!r} "
                               f"nx={nx} ny={ny} i={i} j={j}")
            return
    if spec["kind"] == "shipped":
        run.extra.setdefault("shipped_origins_off_edge_by_ulps", {})[spec["name"]] = off
    elif off:
        run.count("float-origins-off-edge-by-ulps", off)
    orc = Oracle(region, cells, flags)
    if build:
        check_build(run, drv, pending, spec, base, region, cells, flags, orc, rng)
    if pts is None:
        pts = make_points(orc, sorted(set(cells)), rng, budget)
    rid = hash(region_key(spec))
    try:
        ans, masked, problems = impl_answers(region, pts)
    except Exception as e:
        run.oracle_failure(dict(base, points=[[repr(p[0]), repr(p[1])] for p in pts[:50]]),
                           f"lookup of {len(pts)} points raised {type(e).__name__}: {e}")
        return
    for k, what in problems:
        run.oracle_failure(dict(base, points=[[repr(pts[k][0]), repr(pts[k][1])]]), what)
    npoly = len(region.polygons)
    unusable = [k for k, a in enumerate(ans) if a != "o" and not (isinstance(a, int) and 0 <= a < npoly)]
    if unusable or len(ans) != len(pts) or len(masked) != len(pts):
        k = unusable[0] if unusable else 0
        run.oracle_failure(dict(base, points=[[repr(pts[k][0]), repr(pts[k][1])]] if pts else []),
                           f"get_index_of / get_masked returned {ans[k]!r} for the point {pts[k]!r}: not one of the {npoly} polygon numbers "
                           f"({len(ans)} answers, {len(masked)} mask entries for {len(pts)} points)" if pts else "answers for no points")
        return
    exact_only = []
    for k, (p, a) in enumerate(zip(pts, ans)):
        allowed, exact, inband = orc.allowed(p[0], p[1])
        near = inband or a == "o" or exact == "o" or _near_boundary(orc, p)
        run.case(dict(base, points=[[repr(p[0]), repr(p[1])]]) if run.evaluations < 4 else None,
                 (rid, p[0], p[1]) if near else None)
        run.count("in-band" if inband else ("outside" if exact == "o" else "inside"))
        if not inband:
            exact_only.append(k)
        if a not in allowed:
            case = dict(base, points=[[repr(p[0]), repr(p[1])]])
            detail = (f"point ({p[0]!r}, {p[1]!r}) attributed to {a!r}; the property allows {sorted(map(str, allowed))} "
                      f"(nx={nx}, ny={ny}, dh={region.dh!r})")
            sig = None
            if a != "o":
                fx, fy = Fraction(p[0]), Fraction(p[1])
                if (nx == 1 and fx >= orc.ax.top) or (ny == 1 and fy >= orc.ay.top):
                    # would the answer be allowed if the single column / row were open-ended? only then it is D4
                    sx = {0} if (nx == 1 and fx >= orc.ax.top) else orc.ax.allowed(p[0])[0]
                    sy = {0} if (ny == 1 and fy >= orc.ay.top) else orc.ay.allowed(p[1])[0]
                    if a in set().union(*[orc.at_set(i, j) for i in sx for j in sy]):
                        sig = D4
            run.count("known-D4" if sig else "ORACLE-FAIL")
            run.oracle_failure(case, detail, signature=sig)
    # END TO END through the model (round 4): the Lean side builds the region from the ORIGINS alone (num_decimals, cleaner_range,
    # midpoint hash, mask loop: `ReprDec.fromOriginsAuto`) and answers on the region it built — no bounding-box positions, no edge
    # arrays, no decimals from the harness. Compared when the model's edge arrays are the implementation's bit for bit.
    if build and len(region.polygons) <= 3000 and pts:
        org = numpy.asarray(region.origins(), dtype=float)
        near_ids = [k for k, p in enumerate(pts) if orc.allowed(p[0], p[1])[2] or ans[k] == "o" or _near_boundary(orc, p)]
        rest = [k for k in range(len(pts)) if k not in set(near_ids)]
        pick = (near_ids if len(near_ids) <= 90 else (rng.sample(near_ids, 90) if rng else near_ids[:90])) + \
               (rest if len(rest) <= 30 else (rng.sample(rest, 30) if rng else rest[:30]))
        fl = "none" if spec.get("mask") is None else ",".join("1" if m == 1 else "0" for m in spec["mask"])
        dharg = "none:auto" if spec.get("ctor") == "from_origins_nodh" else frac(float(region.dh))
        q = drv.ask(" ".join(["c01_lookup", ",".join(frac(v) for v in org[:, 0]), ",".join(frac(v) for v in org[:, 1]), dharg, fl,
                              ",".join(frac(pts[k][0]) for k in pick), ",".join(frac(pts[k][1]) for k in pick)]))
        pending.append(dict(kind="lookup", q=q, base=base, pts=[pts[k] for k in pick], ans=[ans[k] for k in pick],
                            oallowed=[orc.tolerated(pts[k][0], pts[k][1]) for k in pick],
                            xs=[Fraction(float(v)) for v in region.xs], ys=[Fraction(float(v)) for v in region.ys]))
    # a coordinate exactly on a cell boundary belongs to the cell that boundary opens: every polygon's own origin
    # must be attributed to that polygon (the last one listed there) when its position is active, else be outside
    olon = numpy.array([float(p.origin[0]) for p in region.polygons])
    olat = numpy.array([float(p.origin[1]) for p in region.polygons])
    om = numpy.asarray(region.get_masked(olon, olat)).astype(bool)
    oexp = [orc.at(i, j) for (i, j) in cells]
    ogot = ["o"] * len(cells)
    okeep = numpy.where(~om)[0]
    if len(okeep):
        try:
            for k, v in zip(okeep, region.get_index_of(olon[okeep], olat[okeep])):
                ogot[k] = int(v)
        except Exception:
            ogot = None
    run.case(None, None)
    run.count("own-origins")
    if ogot is not None and ogot != oexp and spec.get("noisy"):
        # a spacing that is not a short decimal: the edges are the lattice to rounding only, so an origin may lie a few ulps
        # BELOW the edge it should open; the property's band rule then allows the neighbour too (judged like any point)
        for k in range(len(cells)):
            if ogot[k] != oexp[k]:
                al = {orc.at(i, j) for i in orc.ax.allowed(float(olon[k]))[0] for j in orc.ay.allowed(float(olat[k]))[0]}
                if ogot[k] in al:
                    run.count("in-band: own origin of a noisy-spacing lattice attributed to the neighbour below")
                    oexp[k] = ogot[k]
    if ogot is not None:       # a lattice position listed several times: any of its polygons (see Oracle.at_set)
        oexp = [g if g in orc.at_set(*c) else e for g, e, c in zip(ogot, oexp, cells)]
    if ogot != oexp:
        k = next((k for k in range(len(cells)) if ogot is None or ogot[k] != oexp[k]), 0)
        run.oracle_failure(dict(base, points=[[repr(float(olon[k])), repr(float(olat[k]))]]),
                           f"origin of polygon {k} is attributed to {None if ogot is None else ogot[k]!r}, expected {oexp[k]!r}")
    # every query class also through scalar calls (Python float, numpy.float64, 0-d array) and 1-element list / array
    single_ids = check_input_forms(run, base, region, orc, pts, ans, masked, rng)
    # catalogs: all points; only unmasked points; random subsets (with duplicates); empty
    cats = []
    if ncat > 0:
        inside = [k for k in range(len(pts)) if ans[k] != "o"]
        pool = list(range(len(pts)))
        cats.append(inside[:400])
        cats.append([])
        for k in single_ids:          # one-event catalogs, one per query class (inside, band, hole, flagged-out, each outside)
            cats.append([k])
        if rng is not None:
            ex_in = [k for k in inside if k in set(exact_only)]
            ex_all = list(exact_only)
            for c in range(ncat):
                # half of the catalogs avoid the round-off band, so that the model comparison is exact
                if c % 2 == 0 and ex_all:
                    src = ex_in if (ex_in and rng.random() < 0.6) else ex_all
                else:
                    src = inside if (inside and rng.random() < 0.6) else pool
                cats.append([rng.choice(src) for _ in range(rng.randint(1, 60))])
        else:
            cats.append(pool[:400])
    cat_impl = []
    for ids in cats:
        cp = [pts[k] for k in ids]
        sc, fs, fs2 = impl_catalog(region, cp)
        # API agreement (direct oracle): survivors are the events get_masked lets through; counts are the histogram of
        # the per-point answers, ValueError exactly when one event is outside
        exp_fs = [pos for pos, k in enumerate(ids) if ans[k] != "o"]
        if any(ans[k] == "o" for k in ids):
            exp_sc = "E"
        else:
            exp_sc = [0] * len(region.polygons)
            for k in ids:
                exp_sc[ans[k]] += 1
        run.case(None, None)
        run.count("catalog")
        if fs != exp_fs or fs2 != exp_fs or sc != exp_sc:
            run.oracle_failure(dict(base, points=[[repr(p[0]), repr(p[1])] for p in cp], catalog=True),
                               f"catalog of {len(ids)} events: filter_spatial kept {fs[:20]} / {fs2[:20]} expected {exp_fs[:20]}; "
                               f"spatial_counts {str(sc)[:120]} expected {str(exp_sc)[:120]}")
        cat_impl.append((ids, sc, fs))
    # derived regions and catalog sessions: masked_region, ==, get_cartesian(data), increase_grid_resolution, filter_spatial sequences
    if ops and (rng is not None or ops_seed is not None):
        c01_ops.check_ops(run, drv, pending, spec, base, region, cells, flags, orc, rng, pts, ans, exact_only, case_seed=ops_seed,
                          only=ops_only)
    # get_cartesian and the arrays
    cart = None
    if arrays:
        n = len(region.polygons)
        try:
            g = region.get_cartesian(numpy.arange(n, dtype=float))
            cart = [["n" if math.isnan(v) else str(int(v)) for v in rowv] for rowv in g]
        except Exception as e:
            run.oracle_failure(dict(base, points=[]), f"get_cartesian raised {type(e).__name__}: {e}")
            return
        # direct oracle on the arrays: unmasked exactly at active positions, index = last polygon listed there
        bad = None
        for j in range(ny):
            for i in range(nx):
                exp = orc.at(i, j)
                got = cart[j][i]
                m = int(region.bbox_mask[j, i])
                S = orc.at_set(i, j)
                okpos = (got == "n" and m == 1 and "o" in S) or (got != "n" and m == 0 and int(got) in S)
                if not okpos:
                    bad = (i, j, exp, got, m)
        run.case(None, None)
        run.count("arrays")
        if bad:
            run.oracle_failure(dict(base, points=[]), f"bbox arrays: position (col,row)={bad[:2]} expected {bad[2]} "
                                                      f"get_cartesian {bad[3]} bbox_mask {bad[4]}")
    # queue the model
    line = " ".join([
        "c01_region",
        ",".join(frac(x) for x in region.xs), ",".join(frac(y) for y in region.ys),
        ",".join(str(i) for i, _ in cells), ",".join(str(j) for _, j in cells), ",".join(str(f) for f in flags),
        ",".join(frac(p[0]) for p in pts) if pts else "-", ",".join(frac(p[1]) for p in pts) if pts else "-",
        ";".join((",".join(str(k) for k in ids) if ids else "-") for ids, _, _ in cat_impl) if cat_impl else "-",
        "1" if arrays else "0"])
    q = drv.ask(line)
    # the oracle's own verdict per point (the PROPERTY's answer set and exact answer): a correspondence difference on which the
    # implementation's answer is property-correct is not reported (the model reproduces the code as it is, known finding D4 —
    # the open upper side of a single row / column — included; a tree that repairs it must stay green)
    oal = [orc.allowed(p[0], p[1]) for p in pts]
    pending.append(dict(q=q, base=base, pts=pts, ans=ans, masked=masked, cart=cart, cats=cat_impl,
                        exact_only=set(exact_only), ncell=len(region.polygons), dups=len(set(cells)) != len(cells),
                        oallowed=[orc.tolerated(p[0], p[1]) for p in pts], oexact=[t[1] for t in oal]))


def _near_boundary(orc, p):
    for axis, v in ((orc.ax, p[0]), (orc.ay, p[1])):
        c = bisect.bisect_right(axis.e, v)
        for m in (c - 1, c):
            if 0 <= m <= axis.n:
                b = axis.e[m] if m < axis.n else float(axis.top)
                if abs(v - b) <= 4 * axis.band_at(m) + 8 * math.ulp(b):
                    return True
    return False


def flush(run, drv, pending):
    out = drv.run()
    for rec in pending:
        if rec.get("kind") == "build":
            flush_build(run, rec, out[rec["q"]])
            continue
        if rec.get("kind") == "area":
            flush_area(run, rec, out[rec["q"]])
            continue
        if rec.get("kind") == "lookup":
            toks = out[rec["q"]].split(" ")
            if len(toks) != 3:
                run.mismatch(dict(rec["base"], points=[], what="lookup-e2e"), "c01_lookup", out[rec["q"]][:200])
                continue
            F = lambda s: [] if s == "-" else [Fraction(v) for v in s.split(",")]
            if F(toks[0]) != rec["xs"] or F(toks[1]) != rec["ys"]:
                run.count("end-to-end lookup skipped: the model's edge arrays are not the implementation's bit for bit")
                continue
            al = toks[2].split(";")
            run.count("end-to-end lookups (region built by the model from the origins alone)", len(rec["pts"]))
            for p, a, s, oa in zip(rec["pts"], rec["ans"], al, rec["oallowed"]):
                run.evaluations += 1
                if str(a) not in s.split("|"):
                    if str(a) in oa:
                        run.count("correspondence difference with a property-correct answer (not reported)")
                        continue
                    run.mismatch(dict(rec["base"], points=[[repr(p[0]), repr(p[1])]], what="lookup-e2e"), str(a), s)
            continue
        if str(rec.get("kind", "")).startswith("ops-"):
            c01_ops.flush_ops(run, rec, out[rec["q"]])
            continue
        toks = out[rec["q"]].split(" ")
        base = rec["base"]
        if len(toks) != 3:
            run.mismatch(dict(base, points=[]), "impl", out[rec["q"]][:200])
            continue
        cart_m, allowed_m, cats_m = toks
        # per-point partition
        pts, ans = rec["pts"], rec["ans"]
        al = allowed_m.split(";") if pts else []
        if len(al) != len(pts):
            run.mismatch(dict(base, points=[]), f"{len(pts)} points", f"{len(al)} answers")
            continue
        for k, (p, a, s) in enumerate(zip(pts, ans, al)):
            if str(a) not in s.split("|"):
                if str(a) in rec["oallowed"][k]:
                    run.count("correspondence difference with a property-correct answer (not reported)")
                    continue
                run.mismatch(dict(base, points=[[repr(p[0]), repr(p[1])]]), str(a), s)
        # arrays
        if rec["cart"] is not None:
            cm = [r.split(",") for r in cart_m.split(";")]
            if cm != rec["cart"] and rec.get("dups"):
                # a lattice position listed several times: which of its polygons get_cartesian shows is the implementation's choice
                run.count("correspondence difference with a property-correct answer (not reported)")
            elif cm != rec["cart"]:
                run.mismatch(dict(base, points=[], what="get_cartesian"), str(rec["cart"])[:300], str(cm)[:300])
        # catalogs: exact comparison whenever no event of the catalog lies in a band
        if rec["cats"]:
            cl = cats_m.split(";")
            for (ids, sc, fs), s in zip(rec["cats"], cl):
                if any(k not in rec["exact_only"] for k in ids):
                    run.count("catalog-with-band-point (API agreement only)")
                    continue
                f = dict(t.split(":", 1) for t in s.split("!"))
                m_sc = "E" if f["sc"] == "E" else ([] if f["sc"] == "-" else [int(v) for v in f["sc"].split(",")])
                m_fs = [] if f["fs"] == "-" else [int(v) for v in f["fs"].split(",")]
                m_gi = "E" if f["gi"] == "E" else ([] if f["gi"] == "-" else [int(v) for v in f["gi"].split(",")])
                i_fs = [ids[pos] for pos in fs] if isinstance(fs, list) else fs
                i_gi = "E" if any(ans[k] == "o" for k in ids) else [ans[k] for k in ids]
                i_gm = ["1" if ans[k] == "o" else "0" for k in ids]
                m_gm = [] if f["gm"] == "-" else f["gm"].split(",")
                if m_sc != sc or m_fs != i_fs or m_gi != i_gi or m_gm != i_gm:
                    # every per-point answer of the implementation is one the PROPERTY allows (oracle), and the catalog results were
                    # already held against those answers by the direct oracle (API agreement in check_region): property-correct
                    if all(str(ans[k]) in rec["oallowed"][k] for k in ids):
                        run.count("correspondence difference with a property-correct answer (not reported)")
                        continue
                    run.mismatch(dict(base, points=[[repr(pts[k][0]), repr(pts[k][1])] for k in ids], catalog=True),
                                 dict(sc=str(sc)[:200], fs=str(i_fs)[:200], gi=str(i_gi)[:200]), s[:600])
    pending.clear()
    drv.lines = []



# ----------------------------------------------------------------------------------------------- construction path
REL = 1e-9  # tolerance of the property-level oracles on computed coordinates (harmless rewrites stay inside it)


def num_decimals(x):
    """calc.py:237 (cleaner_range): decimal places of the shortest decimal string that reads back as x"""
    return max(0, -Decimal(repr(float(x))).as_tuple().exponent)


def _bits(run, ok, what):
    b = run.extra.setdefault("_bit", [0, 0, {}])
    b[1] += 1
    if ok:
        b[0] += 1
    else:
        b[2][what] = b[2].get(what, 0) + 1


def check_build(run, drv, pending, spec, base, region, cells, flags, orc, rng):
    """the float construction path: compute_vertex, Polygon.origin / centroid, bounding box, cleaner_range, the
    midpoint hash, the loop of _build_bitmask_vec, get_bbox, get_location_of, midpoints(), origins(), get_cell_area,
    to_dict / from_dict — direct oracles on the implementation's output, then the Lean op `c01_build` / `c01_area`"""
    from csep.utils.calc import bin1d_vec
    n = len(region.polygons)
    nx, ny = len(region.xs), len(region.ys)
    dh = region.dh
    dhf = float(dh)
    loose = spec["kind"] == "shipped" or spec.get("origins") == "float" or spec.get("noisy")
    try:
        pts4 = numpy.array([numpy.asarray(p.points, dtype=float) for p in region.polygons])   # n x 4 x 2
        org = numpy.asarray(region.origins(), dtype=float)
        mids = numpy.asarray(region.midpoints(), dtype=float)
        bbox = [float(v) for v in region.get_bbox()]
    except Exception as e:
        run.oracle_failure(dict(base, points=[], what="build"), f"origins()/midpoints()/get_bbox() raised {type(e).__name__}: {e}")
        return
    run.case(None, None)
    run.count("build")
    # --- direct oracles ------------------------------------------------------------------------------------
    bad = None
    if pts4.shape != (n, 4, 2) or org.shape != (n, 2) or mids.shape != (n, 2):
        bad = f"shapes: polygons {pts4.shape}, origins() {org.shape}, midpoints() {mids.shape} for {n} polygons"
    if bad is None and spec["kind"] != "shipped":
        given = numpy.array(lattice_origins(spec), dtype=float)
        if given.shape != org.shape or not numpy.array_equal(given, org):
            k = int(numpy.argmax(numpy.any(given != org, axis=1))) if given.shape == org.shape else 0
            bad = f"origins()[{k}] = {org[k].tolist()!r} is not the origin the region was built from {given[k].tolist()!r}"
    if bad is None and not numpy.array_equal(pts4[:, 0, :], org):
        bad = "origins() differs from the first vertex of the polygons"
    if bad is None:
        scale = numpy.maximum(1.0, numpy.maximum(numpy.abs(org), abs(dhf)))
        # vertices: (o, o), (o, u), (u, u), (u, o) with u = o + dh up to the overlap tolerance, never beyond o + dh
        up = org + dhf
        exp4 = numpy.stack([org, numpy.column_stack((org[:, 0], up[:, 1])), up, numpy.column_stack((up[:, 0], org[:, 1]))], axis=1)
        d4 = numpy.abs(pts4 - exp4) / scale[:, None, :]
        if numpy.any(d4 > REL):
            k = int(numpy.argmax(numpy.max(d4, axis=(1, 2))))
            bad = f"polygon {k} vertices {pts4[k].tolist()!r} are not the box of origin {org[k].tolist()!r}, dh={dh!r}"
        elif numpy.any(pts4 > exp4):
            k = int(numpy.argmax(numpy.max(pts4 - exp4, axis=(1, 2)) > 0))
            bad = (f"polygon {k} reaches beyond its half-open box: vertices {pts4[k].tolist()!r}, origin + dh = {up[k].tolist()!r} "
                   f"(cells would overlap)")
        dm = numpy.abs(mids - (org + dhf / 2)) / scale
        if bad is None and numpy.any(dm > REL):
            k = int(numpy.argmax(numpy.max(dm, axis=1)))
            bad = f"midpoints()[{k}] = {mids[k].tolist()!r} is not origin + dh/2 = {(org[k] + dhf / 2).tolist()!r}"
        ebox = [float(region.xs[0]), float(region.xs[-1]) + dhf, float(region.ys[0]), float(region.ys[-1]) + dhf]
        if bad is None and any(abs(a - b) > REL * max(1.0, abs(b)) for a, b in zip(bbox, ebox)):
            bad = f"get_bbox() = {bbox!r}, expected {ebox!r}"
    if bad:
        run.count("ORACLE-FAIL-build")
        run.oracle_failure(dict(base, points=[], what="build"), bad)
        return
    # every cell's midpoint belongs to that cell (the last one listed at its position, if active)
    mm = numpy.asarray(region.get_masked(mids[:, 0], mids[:, 1])).astype(bool)
    mexp = [orc.at(i, j) for (i, j) in cells]
    mgot = ["o"] * n
    keep = numpy.where(~mm)[0]
    if len(keep):
        try:
            for k, v in zip(keep, region.get_index_of(mids[keep, 0], mids[keep, 1])):
                mgot[k] = int(v)
        except Exception:
            mgot = None
    run.case(None, None)
    run.count("own-midpoints")
    if mgot is not None:
        mexp = [g if g in orc.at_set(*c) else e for g, e, c in zip(mgot, mexp, cells)]
    if mgot != mexp:
        k = next((k for k in range(n) if mgot is None or mgot[k] != mexp[k]), 0)
        run.oracle_failure(dict(base, points=[[repr(float(mids[k, 0])), repr(float(mids[k, 1]))]]),
                           f"midpoint of polygon {k} is attributed to {None if mgot is None else mgot[k]!r}, expected {mexp[k]!r}")
    # get_location_of: the polygon objects themselves; Python indexing for negative / out-of-range indices
    loc = [0, n - 1, -1, -n] + ([rng.randrange(-n, n) for _ in range(6)] if rng else [])
    if rng is not None and rng.random() < 0.3:
        loc.append(rng.choice([n, -n - 1, n + 5]))
    try:
        got = region.get_location_of(numpy.array(loc, dtype=numpy.int64))
        locres = []
        for k, g in zip(loc, got):
            where = [m for m in ((k % n),) if region.polygons[m] is g]
            locres.append(where[0] if where else "?")
    except IndexError:
        locres = "IndexError"
    except Exception as e:
        locres = "EXC:" + type(e).__name__
    lexp = "IndexError" if any(not (-n <= k < n) for k in loc) else [k % n for k in loc]
    run.case(None, None)
    run.count("get_location_of")
    loc_quirk = False
    if locres != lexp and isinstance(locres, str) and any(k < 0 or k >= n for k in loc):
        # an index that is no polygon number (negative: Python's from-the-end convention; >= n): the property fixes nothing —
        # wrapping, IndexError or any other rejection is accepted; the valid indices are then checked on their own
        run.count("get_location_of: an index that is no polygon number was rejected / handled differently (accepted)")
        loc_quirk = True
        vloc = [k for k in loc if 0 <= k < n]
        try:
            got = region.get_location_of(numpy.array(vloc, dtype=numpy.int64))
            if any(region.polygons[k] is not g for k, g in zip(vloc, got)):
                run.oracle_failure(dict(base, points=[], what="get_location_of", indices=vloc), f"get_location_of({vloc}) does not return those polygons")
        except Exception as e:
            run.oracle_failure(dict(base, points=[], what="get_location_of", indices=vloc), f"get_location_of({vloc}) raised {type(e).__name__}: {e}")
        locres = lexp
    if locres != lexp:
        run.oracle_failure(dict(base, points=[], what="get_location_of", indices=loc),
                           f"get_location_of({loc}) gave polygons {locres!r}, expected {lexp!r}")
    # to_dict / from_dict: the rebuilt region is the same partition; magnitudes handed to from_dict are bound
    if spec["kind"] != "shipped" and spec.get("mask") is None and n <= 400:
        check_dict(run, base, region)
    # cell areas
    if n <= 3000 or spec["kind"] == "shipped":
        check_area(run, drv, pending, base, region, org, dhf, rng)
    # do the hypotheses of Region.midpoint_hash_correct / fromOrigins_hashes_lattice hold for this region? (NearLattice of
    # both edge arrays, origins and spacing within 2^-41 of the decimal lattice); reported, not required
    try:
        la = Fraction(Decimal(repr(float(region.xs[0])))), Fraction(Decimal(repr(float(region.ys[0]))))
        ldh = Fraction(Decimal(repr(dhf)))
        T = Fraction(1, 2 ** 41)
        ok = abs(Fraction(dhf) - ldh) <= T and ldh >= Fraction(1, 2 ** 20)
        for axis, a0, edges, col in ((0, la[0], region.xs, 0), (1, la[1], region.ys, 1)):
            ne = len(edges)
            ok = ok and 2 <= ne <= 2 ** 16 and a0 >= -1024 and a0 + ne * ldh <= 1024 and \
                all(abs(Fraction(float(e)) - (a0 + k * ldh)) <= T for k, e in enumerate(edges))
            ok = ok and all(abs(Fraction(float(org[k, col])) - (a0 + cells[k][axis] * ldh)) <= T
                            for k in (range(n) if n <= 2000 else rng.sample(range(n), 2000) if rng else range(2000)))
        run.count("midpoint_hash_correct hypotheses hold" if ok else "midpoint_hash_correct hypotheses do not hold "
                  "(single row/column, |coordinate| > 1024 or off-lattice)")
    except Exception:
        run.count("midpoint_hash_correct hypotheses not evaluated")
    # --- the Lean model of the construction ------------------------------------------------------------------
    hx = bin1d_vec(mids[:, 0], region.xs)
    hy = bin1d_vec(mids[:, 1], region.ys)
    arrays = nx * ny * n <= 30_000_000
    fl = "none" if spec.get("mask") is None else ",".join("1" if m == 1 else "0" for m in spec["mask"])   # the mask HANDED to the constructor
    if spec.get("ctor") == "from_origins_nodh":
        # the model infers the spacing like the code does, from the exact values of the decimal strings repr shows for the first
        # two origins (a Python runtime fact used as model input: float(repr(x)) == x, checked here)
        reps = [Decimal(repr(float(org[k, c]))) for k in (0, 1) for c in (0, 1)]
        if any(float(d) != float(org[k, c]) for d, (k, c) in zip(reps, [(0, 0), (0, 1), (1, 0), (1, 1)])):
            raise RuntimeError("float(repr(x)) != x")
        dharg = "none:auto"      # round 4: the model computes the values of the two reprs itself (Model/ReprDecimals.lean)
        run.count("build:from_origins-without-dh")
        # direct oracle: the spacing of the region is the spacing of the lattice it was built from
        if float(dh) != float(Decimal(spec["dh"])):
            run.count("ORACLE-FAIL-build")
            run.oracle_failure(dict(base, points=[], what="build"),
                               f"from_origins without dh inferred dh={float(dh)!r} for origins on the lattice with spacing {spec['dh']}")
    else:
        dharg = frac(dhf)
    line = " ".join(["c01_build", ",".join(frac(v) for v in org[:, 0]), ",".join(frac(v) for v in org[:, 1]), dharg, fl,
                     "auto", "auto", "auto",       # round 4: `num_decimals` is computed by the model (ReprDec.numDecimals)
                     "1" if arrays else "0", ",".join(str(k) for k in loc)])
    q = drv.ask(line)
    pending.append(dict(kind="build", q=q, base=base, n=n, arrays=arrays, loose=loose, dups=len(set(cells)) != len(cells),
                        xs=[Fraction(float(v)) for v in region.xs], ys=[Fraction(float(v)) for v in region.ys],
                        ux=pts4[:, 2, 0].copy(), uy=pts4[:, 2, 1].copy(), mids=mids,
                        hash=[f"{int(a)}:{int(b)}" for a, b in zip(hx, hy)],
                        mask=[ "".join(str(int(v)) for v in row) for row in region.bbox_mask] if arrays else None,
                        imap=[",".join("n" if math.isnan(v) else str(int(v)) for v in row) for row in region.idx_map] if arrays else None,
                        idx_map=None if arrays else region.idx_map, bbox_mask=None if arrays else region.bbox_mask,
                        flags=flags, bbox=bbox, loc=locres, dh=Fraction(dhf)))


def flush_build(run, rec, line):
    base = dict(rec["base"], points=[], what="build")
    toks = line.split(" ")
    if len(toks) != 12:
        run.mismatch(base, "c01_build", line[:200])
        return
    dhm, xs, ys, ux, uy, mx, my, hs, mask, imap, bb, loc = toks
    F = lambda s: [] if s == "-" else [Fraction(v) for v in s.split(",")]
    xs, ys = F(xs), F(ys)
    # discrete outputs: any difference is a difference of the partition
    if len(xs) != len(rec["xs"]) or len(ys) != len(rec["ys"]):
        run.mismatch(base, f"xs/ys sizes {len(rec['xs'])} x {len(rec['ys'])}", f"{len(xs)} x {len(ys)}")
        return
    hm = hs.split(",")
    if hm != rec["hash"]:
        k = next((k for k in range(min(len(hm), len(rec["hash"]))) if hm[k] != rec["hash"][k]), 0)
        run.mismatch(dict(base, polygon=k), f"midpoint of polygon {k} hashed to (idx:idy) {rec['hash'][k]}", hm[k] if k < len(hm) else "-")
    if rec.get("dups") and rec["arrays"] and (mask.split(";") != rec["mask"] or imap.split(";") != rec["imap"]):
        # a lattice position listed several times: which polygon the arrays show there is the implementation's choice (the arrays
        # were judged by the direct oracle with every listed polygon accepted)
        run.count("correspondence difference with a property-correct answer (not reported)")
    elif rec["arrays"]:
        if mask.split(";") != rec["mask"]:
            run.mismatch(dict(base, what="bbox_mask"), str(rec["mask"])[:300], mask[:300])
        if imap.split(";") != rec["imap"]:
            run.mismatch(dict(base, what="idx_map"), str(rec["imap"])[:300], imap[:300])
    elif not rec.get("dups"):
        # large regions: the arrays must be what the loop makes of the model's hash (last writer wins; flag clears the mask)
        h = numpy.array([[int(t) for t in e.split(":")] for e in hm])
        im = numpy.full(rec["idx_map"].shape, numpy.nan)
        bm = numpy.ones(rec["bbox_mask"].shape)
        for k in range(len(h)):
            im[h[k, 1], h[k, 0]] = k
            if h[k, 0] >= 0 and h[k, 1] >= 0 and rec["flags"][k] == 1:
                bm[h[k, 1], h[k, 0]] = 0
        if not numpy.array_equal(bm, rec["bbox_mask"]) or not numpy.array_equal(numpy.nan_to_num(im, nan=-1.0),
                                                                                 numpy.nan_to_num(rec["idx_map"], nan=-1.0)):
            run.mismatch(dict(base, what="bbox_mask/idx_map"), "arrays of the region", "arrays built from the model's midpoint hash")
    lm = "IndexError" if loc == "IndexError" else [int(v) for v in loc.split(",")]
    if lm != rec["loc"]:
        run.mismatch(dict(base, what="get_location_of"), str(rec["loc"]), str(lm))
    # float outputs: bit-exact agreement is recorded; a difference inside the oracles' tolerance is not a violation
    _bits(run, Fraction(dhm) == rec["dh"], "dh")
    _bits(run, xs == rec["xs"], "xs")
    _bits(run, ys == rec["ys"], "ys")
    _bits(run, F(ux) == [Fraction(float(v)) for v in rec["ux"]] and F(uy) == [Fraction(float(v)) for v in rec["uy"]], "vertices")
    _bits(run, F(mx) == [Fraction(float(v)) for v in rec["mids"][:, 0]] and F(my) == [Fraction(float(v)) for v in rec["mids"][:, 1]],
          "midpoints")
    _bits(run, F(bb) == [Fraction(v) for v in rec["bbox"]], "get_bbox")


def check_dict(run, base, region):
    from csep.core.regions import CartesianGrid2D
    run.case(None, None)
    run.count("to_dict/from_dict")
    try:
        d = region.to_dict()
        d2 = json.loads(json.dumps(d))                     # as written to and read from a result file
        mags = [4.95, 5.05, 5.15]
        r2 = CartesianGrid2D.from_dict(dict(d2, magnitudes=mags))
        r3 = CartesianGrid2D.from_dict(d2)
    except Exception as e:
        run.oracle_failure(dict(base, points=[], what="to_dict/from_dict"), f"to_dict / from_dict raised {type(e).__name__}: {e}")
        return
    same = (numpy.array_equal(r2.xs, region.xs) and numpy.array_equal(r2.ys, region.ys) and
            numpy.array_equal(r2.bbox_mask, region.bbox_mask) and
            numpy.array_equal(numpy.nan_to_num(r2.idx_map, nan=-1.0), numpy.nan_to_num(region.idx_map, nan=-1.0)) and
            numpy.array_equal(numpy.asarray(r2.origins(), dtype=float), numpy.asarray(region.origins(), dtype=float)) and
            float(r2.dh) == float(region.dh) and len(r2.polygons) == len(region.polygons))
    if not same or not (r3 == region) or r3.magnitudes is not None or \
            r2.magnitudes is None or [float(m) for m in r2.magnitudes] != mags:
        run.oracle_failure(dict(base, points=[], what="to_dict/from_dict"),
                           f"from_dict(to_dict(region)) is not the same region (same arrays: {same}, ==: {r3 == region}, "
                           f"magnitudes bound: {None if r2.magnitudes is None else list(r2.magnitudes)!r})")


R_EARTH = 6371.0


def _area_exact(lon1, lat1, lon2, lat2):
    """R^2 * dlon(rad) * (sin lat2 - sin lat1), the area of a latitude-longitude box on the sphere, without the cancellation
    of the 1 - cos(colatitude) form: sin b - sin a = 2 cos((a+b)/2) sin((b-a)/2)"""
    a, b = math.radians(lat1), math.radians(lat2)
    return R_EARTH ** 2 * math.radians(lon2 - lon1) * 2.0 * math.cos((a + b) / 2) * math.sin((b - a) / 2)


def _area_tol(lon1, lon2):
    """a few rounding errors of the two terms 2*pi*(1 - cos(.)) (each up to 4*pi) that the code subtracts"""
    return 64 * 2.0 ** -52 * 4 * math.pi * R_EARTH ** 2 * abs(lon2 - lon1) / 360.0


def check_area(run, drv, pending, base, region, org, dhf, rng):
    import struct
    from csep.core.regions import geographical_area_from_bounds as gab
    n = len(org)
    # areas are those of geographic cells: only for lattices inside [-90, 90] of latitude
    if numpy.any(org[:, 1] < -90) or numpy.any(org[:, 1] + dhf > 90):
        run.count("area-skipped (latitudes beyond the poles)")
        return
    try:
        area = numpy.asarray(region.get_cell_area(), dtype=float)
    except Exception as e:
        run.oracle_failure(dict(base, points=[], what="get_cell_area"), f"get_cell_area raised {type(e).__name__}: {e}")
        return
    run.case(None, None)
    run.count("get_cell_area")
    bad = None
    if area.shape != (n,):
        bad = f"get_cell_area() has shape {area.shape} for {n} polygons"
    else:
        for k in (range(n) if n <= 400 else sorted(set([0, n - 1] + [rng.randrange(n) for _ in range(400)])) if rng else range(min(n, 400))):
            lon1, lat1 = float(org[k, 0]), float(org[k, 1])
            lon2, lat2 = lon1 + dhf, lat1 + dhf
            ex = _area_exact(lon1, lat1, lon2, lat2)
            tol = REL * abs(ex) + _area_tol(lon1, lon2)
            if not (area[k] > 0) or abs(area[k] - ex) > tol:
                bad = f"get_cell_area()[{k}] = {area[k]!r} for the cell at {org[k].tolist()!r}, dh={dhf!r}; expected {ex!r} (> 0)"
                break
            # additivity over a partition of the cell: two latitude bands, two longitude halves
            lm, pm = lat1 + dhf / 3, lon1 + dhf / 4
            s1 = gab(lon1, lat1, lon2, lm) + gab(lon1, lm, lon2, lat2)
            s2 = gab(lon1, lat1, pm, lat2) + gab(pm, lat1, lon2, lat2)
            whole = gab(lon1, lat1, lon2, lat2)
            if abs(s1 - whole) > REL * abs(whole) + 3 * _area_tol(lon1, lon2) or abs(s2 - whole) > REL * abs(whole) + 3 * _area_tol(lon1, lon2) \
                    or abs(whole - area[k]) > REL * abs(whole) + _area_tol(lon1, lon2):
                bad = (f"area of the cell at {org[k].tolist()!r} (dh={dhf!r}) is not additive: whole {whole!r}, latitude bands {s1!r}, "
                       f"longitude halves {s2!r}, get_cell_area {area[k]!r}")
                break
    if bad:
        run.count("ORACLE-FAIL-area")
        run.oracle_failure(dict(base, points=[], what="get_cell_area"), bad)
        return
    if n > 3000:
        return
    bits = lambda v: str(struct.unpack("<Q", struct.pack("<d", float(v)))[0])
    q = drv.ask(" ".join(["c01_area", ",".join(bits(v) for v in org[:, 0]), ",".join(bits(v) for v in org[:, 1]), bits(dhf)]))
    pending.append(dict(kind="area", q=q, base=base, area=area, org=org, dhf=dhf))


def flush_area(run, rec, line):
    import struct
    vals = [struct.unpack("<d", struct.pack("<Q", int(t)))[0] for t in line.split(",")] if line not in ("-", "bad-op") else None
    if vals is None or len(vals) != len(rec["area"]):
        run.mismatch(dict(rec["base"], points=[], what="get_cell_area"), f"{len(rec['area'])} areas", line[:100])
        return
    exact = 0
    for k, (a, m) in enumerate(zip(rec["area"], vals)):
        lon1 = float(rec["org"][k, 0])
        if abs(a - m) > REL * abs(m) + _area_tol(lon1, lon1 + rec["dhf"]):
            run.mismatch(dict(rec["base"], points=[], what="get_cell_area", polygon=k), repr(float(a)), repr(m))
            return
        exact += a == m
    _bits(run, exact == len(vals), "get_cell_area")


# ----------------------------------------------------------------------------------------------- generators
NICE = ["0.05", "0.1", "0.25", "0.5", "1", "2"]


# spacings that are not short decimals (their repr has 16-17 decimals): arc-minute grids, thirds, the noise of a float
# difference. `cleaner_range` takes its fallback path for them (Model/RegionBuild.lean `cleanerRangeAll`).
NOISY_DH = [1 / 3, 1 / 6, 1 / 7, 2 / 3, 1 / 30, 1 / 35, 1 / 60, 1 / 70, 0.1 / 3, 0.1 + 0.2, 0.7123456789012345, 0.0712345678901234]

# (round 4's AWAITING_DECISION_BUILD — a noisy spacing with a coarse anchor that is no multiple of it: cleaner_range's fallback rounded
# the anchor to a multiple of the spacing — was decided a genuine defect and repaired in /repo by fix D49: the class is generated and
# ENFORCED now (`check_displaced_region`, free anchors for the noisy-spacing lattices, corpus/C01/d49_noisy_dh_coarse_anchor.json))


def _displaced_class(v, dhf):
    """the class of defect D49 of `cleaner_range(v, ..., dhf)` (coarse anchor, fine noisy step, anchor no multiple of the step)"""
    dec_s, dec_h = num_decimals(v), num_decimals(dhf)
    return dec_h >= 16 and 10 ** dec_s < 1 / dhf and (Fraction(float(v)) / Fraction(dhf)).denominator != 1


def gen_lattice(rng, tier):
    noisy = rng.random() < 0.12
    if noisy:
        dh = Decimal(repr(rng.choice(NOISY_DH)))
    elif rng.random() < 0.6:
        dh = Decimal(rng.choice(NICE))
    else:
        dh = Decimal(rng.randint(1, 400)).scaleb(-rng.choice([1, 2, 3]))
    kind = rng.choice(["neg", "pos", "zero-edge", "zero-cross", "tiny", "multiple"])
    if noisy:
        kind = rng.choice(["multiple", "zero-edge", "neg", "pos", "tiny"])
    shape = rng.choice(["1x1", "1xn", "nx1", "small", "small", "medium", "medium", "2xn"])
    big = 25 if tier == "quick" else 40
    nx, ny = dict([("1x1", (1, 1)), ("1xn", (1, rng.randint(2, 12))), ("nx1", (rng.randint(2, 12), 1)),
                   ("small", (rng.randint(2, 6), rng.randint(2, 6))),
                   ("medium", (rng.randint(7, big), rng.randint(7, big))),
                   ("2xn", (2, rng.randint(2, 9)))])[shape]

    def anchor(n):
        if kind == "neg":
            return Decimal(rng.randint(-1800, -1)).scaleb(-rng.choice([0, 1, 2])) - n * dh
        if kind == "pos":
            return Decimal(rng.randint(1, 1800)).scaleb(-rng.choice([0, 1, 2]))
        if kind == "zero-edge":
            return -dh * rng.randint(0, n)
        if kind == "zero-cross":
            return -dh * rng.randint(0, n) + Decimal(rng.randint(-99, 99)).scaleb(-3)
        if kind == "tiny":
            return Decimal(rng.randint(-30, 30)).scaleb(-rng.choice([2, 3, 4]))
        return dh * rng.randint(-300, 300)

    ax, ay = anchor(nx), anchor(ny)
    fine_far = (not noisy) and rng.random() < 0.1
    if fine_far:
        # a FINE lattice FAR from the coordinate origin (city-scale grids: spacing 0.0001 .. 0.0005 degrees at |lon| up to 180,
        # |lat| up to 80): the ratio coordinate / spacing is 10^5 .. 10^6, where any formula that multiplies coordinates before it
        # subtracts (area-weighted centroids, scaled differences) loses the cell. Added after the seeded change C01_9 turned out to
        # be caught only by the luck of the draw (|anchor| / dh of the other classes rarely exceeds 10^4).
        dh = Decimal(rng.choice(["0.0001", "0.0002", "0.0003", "0.0005"]))
        ax = Decimal(rng.choice([-1, 1]) * rng.randint(3000, 17990)).scaleb(-2)
        ay = Decimal(rng.choice([-1, 1]) * rng.randint(2000, 7990)).scaleb(-2)
        kind = "fine-far"
    full = [(i, j) for i in range(nx) for j in range(ny)]
    cells = list(full)
    hole = rng.choice(["none", "none", "random", "rect", "column", "row", "sparse"])
    if len(full) > 2:
        if hole == "random":
            cells = [c for c in full if rng.random() > 0.25]
        elif hole == "sparse":
            cells = [c for c in full if rng.random() > 0.7]
        elif hole == "rect" and nx > 2 and ny > 2:
            i0, i1 = sorted(rng.sample(range(nx), 2))
            j0, j1 = sorted(rng.sample(range(ny), 2))
            cells = [c for c in full if not (i0 <= c[0] < i1 and j0 <= c[1] < j1)]
        elif hole == "column" and nx > 2:
            k = rng.randrange(1, nx - 1)
            cells = [c for c in full if c[0] != k]
        elif hole == "row" and ny > 2:
            k = rng.randrange(1, ny - 1)
            cells = [c for c in full if c[1] != k]
    if not cells:
        cells = [rng.choice(full)]
    order = rng.choice(["row", "col", "shuffle", "shuffle"])
    if order == "row":
        cells.sort(key=lambda c: (c[1], c[0]))
    elif order == "col":
        cells.sort()
    else:
        rng.shuffle(cells)
    if rng.random() < 0.2:  # duplicates
        for _ in range(rng.randint(1, 3)):
            cells.insert(rng.randrange(len(cells) + 1), rng.choice(cells))
    mask = None
    if rng.random() < 0.3:
        mask = [1 if rng.random() < 0.75 else rng.choice([0, 0, 2]) for _ in cells]
    ctor = rng.choice(["from_origins", "polygons"])
    dh_int = rng.random() < 0.5
    origins = "float" if rng.random() < 0.2 else "decimal"
    if mask is None and origins == "decimal" and rng.random() < 0.45:
        # from_origins WITHOUT dh: the code infers the spacing from the first two origins, which it assumes to be adjacent
        # cells (D30) — move an adjacent pair of distinct cells to the front, if there is one
        cs = set(cells)
        pairs = [(c, (c[0] + a, c[1] + b)) for c in cells for a, b in ((1, 0), (0, 1), (-1, 0), (0, -1), (1, 1), (-1, 1), (1, -1), (-1, -1))
                 if (c[0] + a, c[1] + b) in cs]
        if pairs:
            # the first two origins decide the inferred spacing: a longitude pair, a latitude pair or a diagonal one, each with its
            # own share (a spacing read off ONE coordinate only must be caught in either direction)
            want = rng.choice(["lon", "lat", "diag"])
            sel = [pr for pr in pairs if (want == "lon" and pr[0][1] == pr[1][1]) or (want == "lat" and pr[0][0] == pr[1][0]) or
                   (want == "diag" and pr[0][0] != pr[1][0] and pr[0][1] != pr[1][1])]
            c0, c1 = rng.choice(sel or pairs)
            rest = list(cells)
            rest.remove(c0)
            rest.remove(c1)
            cells = [c0, c1] + rest
            ctor = "from_origins_nodh"
    kwargs = rng.random() < 0.25
    vtol = rng.choice(["0", "1e-10", "1e-13"]) if (ctor == "polygons" or mask is not None) and rng.random() < 0.3 else None
    spec = dict(kind="lattice", ax=str(ax), ay=str(ay), dh=str(dh), cells=[list(c) for c in cells], mask=mask,
                ctor=ctor, dh_int=dh_int, origins=origins, kwargs=kwargs, vtol=vtol,
                meta=f"{kind}/{shape}/{hole}/{order}" + ("/noisy-dh" if noisy else ""))
    if noisy:
        spec["noisy"] = True       # edges are the lattice to rounding only (fallback path of cleaner_range): loose comparison
        # (until fix D49 the lattice had to be kept out of the class "coarse anchor that is no multiple of a fine noisy step";
        # now every anchor is generated)
        org = numpy.array(lattice_origins(_spec_cells_tuple(spec)), dtype=float)
        if _displaced_class(org[:, 0].min(), float(dh)) or _displaced_class(org[:, 1].min(), float(dh)):
            spec["meta"] += "/D49-class"
        if spec["ctor"] == "from_origins_nodh":
            spec["ctor"] = "from_origins"      # the spacing cannot be read off two reprs that carry 17 digits of noise
    return spec


def _spec_cells_tuple(spec):
    spec = dict(spec)
    spec["cells"] = [tuple(c) for c in spec["cells"]]
    return spec


def run_corpus(run, drv, pending):
    for path in sorted(glob.glob(os.path.join(VERIF, "corpus", "C01", "*.json"))):
        c = json.load(open(path))
        pts = [(float(a), float(b)) for a, b in c["points"]]
        check_region(run, drv, pending, _spec_cells_tuple(c["region"]), pts=pts, rng=None, arrays=True,
                     tag="corpus:" + os.path.basename(path))
        run.count("corpus")


def check_displaced_region(run, rng):
    """the class of defect D49 (repaired): a 4 x 3 lattice with a spacing of 16+ decimals anchored at a one-decimal point that is no
    multiple of it, origins computed as anchor + k*dh: the edge arrays start AT the anchor, the region contains its own origins and
    midpoints"""
    from csep.core.regions import CartesianGrid2D
    dhf = rng.choice([1 / 30, 1 / 35, 1 / 60, 1 / 70, 0.0712345678901234])
    for _ in range(20):
        ax, ay = round(rng.uniform(-20, 20), 1), round(rng.uniform(-20, 20), 1)
        if _displaced_class(ax, dhf) and _displaced_class(ay, dhf):
            break
    else:
        return
    o = numpy.array([[ax + i * dhf, ay + j * dhf] for i in range(4) for j in range(3)])
    # (the case is an ordinary lattice spec: its replay runs the whole region check on it, as corpus/C01/d49_*.json does)
    spec = dict(kind="lattice", ax=repr(ax), ay=repr(ay), dh=repr(dhf), cells=[[i, j] for i in range(4) for j in range(3)], mask=None,
                ctor="from_origins", dh_int=False, origins="float", noisy=True, meta="D49/coarse-anchor")
    case = dict(region=spec, points=[[repr(float(a)), repr(float(b))] for a, b in o] + [[repr(float(a + dhf / 2)), repr(float(b + dhf / 2))] for a, b in o],
                what="noisy-dh-coarse-anchor")
    run.evaluations += 1
    run.count("D49 class: region with a noisy spacing and a coarse anchor")
    try:
        r = CartesianGrid2D.from_origins(o.copy(), dh=dhf)
        m = numpy.asarray(r.get_masked(o[:, 0] + dhf / 2, o[:, 1] + dhf / 2)).astype(bool)
        own = numpy.asarray(r.get_masked(o[:, 0], o[:, 1])).astype(bool)
        idx = numpy.asarray(r.get_index_of(o[:, 0] + dhf / 2, o[:, 1] + dhf / 2)) if not m.any() else None
    except Exception as e:
        run.oracle_failure(case, f"from_origins / lookups raised {type(e).__name__}: {e}")
        return
    tol = 1e-12 * max(1.0, abs(ax), abs(ay))
    if len(r.xs) != 4 or len(r.ys) != 3 or abs(float(r.xs[0]) - ax) > tol or abs(float(r.ys[0]) - ay) > tol or m.any() or own.any() or \
            idx is None or idx.tolist() != list(range(12)):
        run.oracle_failure(case, f"from_origins(anchor ({ax!r}, {ay!r}) + (i, j)*dh, 4 x 3 cells, dh={dhf!r}): xs[0]={float(r.xs[0])!r}, "
                                 f"ys[0]={float(r.ys[0])!r} ({len(r.xs)} x {len(r.ys)} edges), {int(m.sum())} of 12 own midpoints and "
                                 f"{int(own.sum())} of 12 own origins masked")


def check_global(run, dh, build):
    """`global_region(dh)` (regions.py:269-289): the longitudes / latitudes it takes the product of and the edge arrays of the
    region, against `c01_global` (Model/ReprDecimals.lean `globalOrigins`, theorem `global_region_construction` for dh = 0.1).
    The implementation side is the two `cleaner_range` calls of regions.py:283-284 and, for dh >= 0.5, the region itself (built when `build`)."""
    from csep.utils.calc import cleaner_range
    from csep.core import regions
    lons = cleaner_range(-180.0, 180.0, dh)[:-1]
    lats = cleaner_range(-90, 90.0, dh)[:-1]
    xs = cleaner_range(float(lons.min()), float(lons.max()), dh)
    ys = cleaner_range(float(lats.min()), float(lats.max()), dh)
    case = dict(region=dict(kind="shipped", name="global1"), points=[], what="global", dh=repr(dh))
    if build:
        r = regions.global_region(dh=dh)
        org = numpy.asarray(r.origins(), dtype=float)
        okr = numpy.array_equal(r.xs, xs) and numpy.array_equal(r.ys, ys) and len(org) == len(lons) * len(lats) and \
            numpy.array_equal(numpy.unique(org[:, 0]), lons) and numpy.array_equal(numpy.unique(org[:, 1]), lats) and \
            numpy.array_equal(org[: len(lats), 1], lats) and numpy.all(org[: len(lats), 0] == lons[0])
        if not okr:
            run.oracle_failure(case, f"global_region(dh={dh!r}): origins / edge arrays are not the product of "
                                     f"cleaner_range(-180, 180, dh)[:-1] and cleaner_range(-90, 90, dh)[:-1]")
    # direct oracle: the nearest doubles of the decimal grid
    D = Fraction(Decimal(repr(dh)))
    nx, ny = Fraction(360) / D, Fraction(180) / D
    if nx.denominator == 1 and ny.denominator == 1:
        ex = [float(Fraction(-180) + k * D) for k in range(int(nx))]
        ey = [float(Fraction(-90) + k * D) for k in range(int(ny))]
        if list(map(float, lons)) != ex or list(map(float, lats)) != ey or list(map(float, xs)) != ex or list(map(float, ys)) != ey:
            run.oracle_failure(case, f"global_region(dh={dh!r}): longitudes / latitudes are not the nearest doubles of -180 + k*dh, -90 + k*dh")
    d = Driver()
    d.ask(f"c01_global {frac(float(dh))}")
    res = d.run()[0].split(" ")
    run.evaluations += 1
    run.count("global_region-coordinates")
    F = lambda s: [] if s == "-" else [Fraction(v) for v in s.split(",")]
    got = [[Fraction(float(v)) for v in a] for a in (lons, lats, xs, ys)]
    if len(res) != 4 or [F(t) for t in res] != got:
        run.mismatch(case, f"{len(lons)} x {len(lats)} coordinates, {len(xs)} x {len(ys)} edges",
                     "c01_global differs: " + " ".join(t[:60] for t in res))


def run(run, rng, tier):
    drv, pending = Driver(), []
    run_corpus(run, drv, pending)
    # (the region itself is built for coarse spacings only: 16 200 cells at dh = 2; global(1) is a shipped region of every run)
    for dh in ([0.1, 1.0, rng.choice([0.5, 0.25, 0.2]), rng.choice([2.0, 5.0, 4.0])] if tier == "quick" else [0.1, 0.2, 0.25, 0.5, 1.0, 2.0, 4.0, 5.0]):
        try:
            check_global(run, dh, build=dh >= (2.0 if tier == "quick" else 1.0))
        except (RuntimeError, KeyboardInterrupt, MemoryError):
            raise
        except Exception as e:
            import traceback
            from .core import REPO
            fr = traceback.extract_tb(e.__traceback__)
            if fr and os.path.realpath(fr[-1].filename).startswith(os.path.realpath(REPO) + os.sep):
                raise
            run.oracle_failure(dict(region=dict(kind="shipped", name="global1"), points=[], what="global", dh=repr(dh)),
                               f"global_region(dh={dh!r}): a returned value could not be used ({type(e).__name__}: {str(e)[:160]})")
    for _ in range(3 if tier == "quick" else 20):
        check_displaced_region(run, rng)
    nlat = 75 if tier == "quick" else 1000
    run.extra["_big_quota"] = 2 if tier == "quick" else 25
    run.extra["_tier"] = tier
    budget = 1400 if tier == "quick" else 2500
    for n in range(nlat):
        spec = _spec_cells_tuple(gen_lattice(rng, tier))
        run.count("lattice:" + spec["meta"].split("/")[1])
        check_region(run, drv, pending, spec, rng=rng, budget=budget, tag=spec["meta"], build=spec.get("vtol") is None)
        if spec.get("vtol") is not None:
            run.count("constructor: compute_vertices(tol=" + spec["vtol"] + ")")
        if spec.get("kwargs"):
            run.count("constructor: name= / magnitudes=")
        if len(pending) >= 25:
            flush(run, drv, pending)
    flush(run, drv, pending)
    # shipped regions
    if tier == "quick":
        names = rng.sample(["nz", "nzc", "itc", "carelmc"], 2) + ["global1", "it", "carelm"]
    else:
        names = list(SHIPPED)
    # the factories' rarely used arguments (one variant per quick run, all in thorough)
    names += [rng.choice(SHIPPED_VARIANTS)] if tier == "quick" else list(SHIPPED_VARIANTS)
    # a lattice with more than 2^16 cells (257 x 256 = 65792, not a multiple of 2^16): partition by oracle and exact-layer model
    bx, by = rng.choice([(257, 256), (256, 258), (131, 503)])
    big_spec = dict(kind="lattice", ax=str(Decimal(rng.randint(-1500, 1000)).scaleb(-1)), ay=str(Decimal(rng.randint(-800, 500)).scaleb(-1)),
                    dh="0.1", cells=[(i, j) for j in range(by) for i in range(bx) if (i * 7 + j * 13) % 97 != 5], mask=None,
                    ctor="from_origins", dh_int=False, origins="decimal", meta=f"big/{bx}x{by}/sparse-holes/row")
    run.count("lattice:more-than-65536-cells")
    check_region(run, drv, pending, big_spec, rng=rng, budget=500, arrays=False, ncat=1, tag=big_spec["meta"], build=False, ops=False)
    flush(run, drv, pending)
    for name in names:
        big = name.startswith("global")
        fine = name.endswith("_s2") and tier == "quick"      # 4x the cells: in the quick tier partition + factory-argument oracles only
        check_region(run, drv, pending, dict(kind="shipped", name=name), rng=rng,
                     budget=(600 if (big or fine) else 2500) if tier == "quick" else (2500 if big else 8000),
                     arrays=not (big or fine), ncat=2, tag="shipped:" + name, build=not fine, ops=not fine)
        flush(run, drv, pending)
    _finish_bits(run)
    run.assumptions.append("polygon k of a generated lattice is hashed by the library to the bounding-box position of its "
                           "lattice coordinates (checked through get_cartesian / bbox_mask on every region)")


def _finish_bits(run):
    run.extra.pop("_big_done", None)
    run.extra.pop("_big_quota", None)
    run.extra.pop("_tier", None)
    b = run.extra.pop("_bit", [0, 0, {}])
    run.extra["bitexact_agreement"] = f"{b[0]}/{b[1]}"
    run.extra["bitexact_differences"] = b[2]
    if b[0] != b[1]:
        run.assumptions.append("bit-exactness with the Soft64 model of the construction path lost on some regions: the Soft64 "
                               "theorem midpoint_hash_correct no longer applies to the code as it is; the exact-layer theorems, "
                               "the direct oracles and the correspondence of the discrete outputs still do")


def replay(run, payload):
    case = payload["case"]
    drv, pending = Driver(), []
    pts = [(float(a), float(b)) for a, b in case.get("points", [])]
    spec = _spec_cells_tuple(case["region"]) if case["region"]["kind"] != "shipped" else case["region"]
    arrays = case["region"]["kind"] != "shipped" or not case["region"]["name"].startswith("global")
    if str(case.get("what", "")).startswith("ops:"):
        # a derived-region / catalog-session case: the region with freshly generated points, the operation re-drawn from its seed
        only = dict(masked_region=["masked"], filter_spatial=["filter"], increase_grid_resolution=["incres"],
                    grid_spacing=["incres"], shared_session=["shared"], aftershock_region=["aftershock"], rebinding_history=["rebind"], sizes_and_forms=["sizes"], copies_and_state=["copies"], nonfinite=["nonfinite"], big_catalog=["big"]).get(case["what"][4:], ["eq"])
        check_region(run, drv, pending, spec, pts=None, rng=__import__("random").Random(case.get("ops_seed", 0)), arrays=arrays,
                     tag="replay", build=False, ops_seed=case.get("ops_seed", 0), ops_only=only)
    else:
        check_region(run, drv, pending, spec, pts=pts or None, rng=None if pts else __import__("random").Random(0),
                     arrays=arrays, tag="replay")
    flush(run, drv, pending)
    _finish_bits(run)
