"""C01 — Cartesian regions: one half-open cell per point.

Correspondence of csep.core.regions.CartesianGrid2D (get_index_of, get_masked, get_cartesian, bbox_mask / idx_map) and
CSEPCatalog.filter_spatial / spatial_counts with Model/Region.lean, plus a direct exact oracle (fractions.Fraction)."""
import bisect
import glob
import json
import math
import os
from decimal import Decimal
from fractions import Fraction

import numpy

from .core import Driver, VERIF, frac

LEVEL_TEXT = ("Proof: on every lattice (any spacing, anchor, extent, holes, mask flags, duplicates, polygon order) the model of "
              "CartesianGrid2D attributes a point to polygon k exactly when k is the last listed polygon of an active "
              "bounding-box position whose half-open box contains the point, and reports it outside (masked / ValueError) "
              "exactly when no active cell contains it; boundaries open the upper cell; get_index_of, get_masked, "
              "filter_spatial, spatial_counts and get_cartesian are proved to be functions of that single partition "
              "(induction over the polygon list and the point list, no size bound). Tied to the code by a correspondence over "
              "random lattices and the shipped regions at every cell corner, edge midpoint, +-1..4 ulps around every edge, "
              "band-edge points, holes and all outsides.")
LEVEL_NOTE = ("The 1-D lookup is modelled by its exact meaning (last edge <= x, closed top); the float formula of bin1d_vec is "
              "the subject of C02. Inside the documented round-off band immediately below a boundary "
              "(eps*(6|x| + (2m+6)|a0|) + 2^-1022, eps = 2^-52) either adjacent cell is accepted, outside the band the answer must "
              "be exact. The bounding-box position (i, j) of each polygon is supplied by the harness from the lattice "
              "coordinates and cross-checked through bbox_mask / idx_map / get_cartesian.")
DESIGN_REF = "DESIGN.md §4 C01"
TECHNIQUE = "Lean 4 proof (exact layer) + differential correspondence + exact direct oracle"

THEOREMS = ["Region.col_eq_iff", "Region.row_eq_iff", "Region.col_eq_floor", "Region.boundary_opens",
            "Region.single_column_open", "Region.cells_disjoint", "Region.cellOf_eq_some_iff", "Region.cellOf_eq_none_iff",
            "Region.getIndexOf_ok_iff", "Region.getMasked_iff", "Region.index_error_iff_masked",
            "Region.index_error_iff_any_masked", "Region.unique_cell", "Region.apis_agree", "Region.cartesian_agrees",
            "Region.order_irrelevant", "Region.exact_mem_allowed", "Region.allowed_exact_outside_band",
            "Region.col_eq_iff_sorted", "Region.col_mono"]
TRUSTED = ["Lean 4.33 kernel", "axioms: propext, Classical.choice, Quot.sound at most",
           "the float formula of csep.utils.calc.bin1d_vec agrees with the exact lookup outside the round-off band "
           "(property C02; here checked point by point by the correspondence)",
           "bounding-box position (i, j) of each polygon computed by the harness from the generating lattice "
           "(cross-checked against region.idx_map / bbox_mask)",
           "Soft64 binary64 addition/subtraction for the upper side xs[-1] + (xs[1] - xs[0])",
           "harness/c01.py generators, exact oracle and comparison; driver parsing (Proto.lean)"]
RULE = ("lattices: spacing from {0.05,0.1,0.25,0.5,1,2} or a random 1-3 digit decimal, anchors negative / positive / "
        "zero-crossing / |anchor| << spacing, origins as nearest doubles of the decimal lattice or computed in binary64 "
        "(anchor + k*dh, a few ulps off), shapes 1x1, 1xn, nx1, small, medium, holes (random, rectangular, whole "
        "column/row), duplicates, mask flags, shuffled / row-major / column-major polygon order, both constructors; shipped "
        "regions NZ, NZ-collection, Italy-collection, California-collection, global(1, 0.5). Points: every cell corner, edge "
        "midpoint and centre, +-1..4 ulps around every edge coordinate, 1.5x and 3x the band below each edge, hole centres, "
        "the four outsides, corners outside, far outside. A case is one (region, point); non-trivial when the point lies on "
        "or within 4 ulps / 3 bands of a cell boundary, in a hole, or outside; distinct by (region id, lon, lat)")

EPS = Fraction(1, 2 ** 52)
TINY = Fraction(1, 2 ** 1022)  # gradual underflow of the quotient in bin1d_vec
D4 = "single-row-or-column-region:point-beyond-upper-side"
SHIPPED = ["nz", "nzc", "itc", "carelmc", "global1", "global05", "it", "carelm"]


# ----------------------------------------------------------------------------------------------- regions
def _shipped(name):
    from csep.core import regions
    f = dict(nz=regions.nz_csep_region, nzc=regions.nz_csep_collection_region,
             itc=regions.italy_csep_collection_region, carelmc=regions.california_relm_collection_region,
             it=regions.italy_csep_region, carelm=regions.california_relm_region,
             global1=lambda: regions.global_region(dh=1), global05=lambda: regions.global_region(dh=0.5))[name]
    return f()


def lattice_origins(spec):
    ax, ay, dh = Decimal(spec["ax"]), Decimal(spec["ay"]), Decimal(spec["dh"])
    imin = min(i for i, _ in spec["cells"])
    jmin = min(j for _, j in spec["cells"])
    if spec.get("origins") == "float":
        # origins the way user code often computes them: anchor + k * dh in binary64 (up to a few ulps off the decimal
        # lattice); the anchor itself (the lower-left corner of the bounding box) is the clean decimal
        fx, fy, fd = float(ax + imin * dh), float(ay + jmin * dh), float(dh)
        return [(fx + (i - imin) * fd, fy + (j - jmin) * fd) for i, j in spec["cells"]]
    return [(float(ax + i * dh), float(ay + j * dh)) for i, j in spec["cells"]]


def build_region(spec):
    """returns (region, cells[(i, j)], flags[0/1]) ; cells are bounding-box lattice coordinates in polygon order"""
    from csep.core.regions import CartesianGrid2D, compute_vertices
    from csep.models import Polygon
    if spec["kind"] == "shipped":
        region = _shipped(spec["name"])
        # shipped origins are `midpoint - dh/2` in floating point, i.e. up to a few ulps away from the clean decimal
        # edges xs / ys; the bounding-box position of a polygon is the nearest edge
        xs, ys = [float(x) for x in region.xs], [float(y) for y in region.ys]
        cells = []
        for p in region.polygons:
            lon, lat = float(p.origin[0]), float(p.origin[1])
            i = min(max(int(round((lon - xs[0]) / float(region.dh))), 0), len(xs) - 1)
            j = min(max(int(round((lat - ys[0]) / float(region.dh))), 0), len(ys) - 1)
            if abs(xs[i] - lon) > 4 * math.ulp(lon) or abs(ys[j] - lat) > 4 * math.ulp(lat):
                return region, None, None
            cells.append((i, j))
        flags = [1] * len(cells) if region.poly_mask is None else [1 if m == 1 else 0 for m in region.poly_mask]
        return region, cells, flags
    origins = lattice_origins(spec)
    dhf = float(Decimal(spec["dh"]))
    if spec.get("dh_int") and dhf == int(dhf):
        dhf = int(dhf)
    mask = spec.get("mask")
    if spec.get("ctor") == "polygons" or mask is not None:
        polys = [Polygon(b) for b in compute_vertices(origins, dhf)]
        region = CartesianGrid2D(polys, dhf, mask=None if mask is None else list(mask))
    else:
        region = CartesianGrid2D.from_origins(numpy.array(origins), dh=dhf)
    imin = min(i for i, _ in spec["cells"])
    jmin = min(j for _, j in spec["cells"])
    cells = [(i - imin, j - jmin) for i, j in spec["cells"]]
    flags = [1] * len(cells) if mask is None else [1 if m == 1 else 0 for m in mask]
    return region, cells, flags


# ----------------------------------------------------------------------------------------------- exact oracle
class Axis:
    """exact 1-D partition on the float edge array, with the band of the property"""

    def __init__(self, edges, dh):
        self.e = [float(x) for x in edges]
        self.n = len(self.e)
        self.a0 = abs(Fraction(self.e[0]))
        if self.n >= 2:
            # the upper side the code compares against: bins[-1] + (bins[1] - bins[0]) in float64
            self.top = Fraction(float(numpy.float64(self.e[-1]) + (numpy.float64(self.e[1]) - numpy.float64(self.e[0]))))
        else:
            self.top = Fraction(self.e[0]) + Fraction(dh)
        self.cache = {}

    def exact(self, x, xf):
        c = bisect.bisect_right(self.e, x)
        if c == 0 or xf >= self.top:
            return None
        return c - 1

    def allowed(self, x):
        """(set of allowed indices (None = not in the box), exact index, in_band)"""
        r = self.cache.get(x)
        if r is not None:
            return r
        xf = Fraction(x)
        c = bisect.bisect_right(self.e, x)
        e = self.exact(x, xf)
        res = {e}
        b = Fraction(self.e[c]) if c < self.n else self.top
        if xf < b and b - xf <= EPS * (6 * abs(xf) + (2 * c + 6) * self.a0) + TINY:
            res.add(self.exact(float(b), b) if c < self.n else None)
        r = (res, e, len(res) > 1)
        self.cache[x] = r
        return r

    def band_at(self, m):
        """float width of the band below boundary m (for point generation)"""
        b = self.e[m] if m < self.n else float(self.top)
        return float(EPS * (6 * abs(Fraction(b)) + (2 * m + 6) * self.a0) + TINY)


class Oracle:
    def __init__(self, region, cells, flags):
        self.ax = Axis(region.xs, region.dh)
        self.ay = Axis(region.ys, region.dh)
        self.last, self.active = {}, set()
        for k, (c, f) in enumerate(zip(cells, flags)):
            self.last[c] = k
            if f == 1:
                self.active.add(c)

    def at(self, i, j):
        if i is None or j is None or (i, j) not in self.active:
            return "o"
        return self.last[(i, j)]

    def allowed(self, lon, lat):
        sx, ex, bx = self.ax.allowed(lon)
        sy, ey, by = self.ay.allowed(lat)
        return {self.at(i, j) for i in sx for j in sy}, self.at(ex, ey), (bx or by)


# ----------------------------------------------------------------------------------------------- points
def _ulps(x, k):
    for _ in range(abs(k)):
        x = math.nextafter(x, math.inf if k > 0 else -math.inf)
    return x


def axis_values(axis, rng, full):
    """boundary-directed coordinates of one axis: (value, is_boundary_directed)"""
    e, n = axis.e, axis.n
    top = float(axis.top)
    bnd = e + [top]
    idxs = range(len(bnd)) if full or len(bnd) <= 12 else sorted(set([0, 1, len(bnd) - 2, len(bnd) - 1] +
                                                                   rng.sample(range(len(bnd)), 8)))
    vals = []
    for m in idxs:
        b = bnd[m]
        w = axis.band_at(m)
        vals += [b] + [_ulps(b, k) for k in (1, 2, 3, 4, -1, -2, -3, -4)]
        vals += [b - 1.5 * w, b - 3 * w, b - 0.5 * w, b + 3 * w]
    mids = [(bnd[m] + bnd[m + 1]) / 2 for m in range(len(bnd) - 1)]
    h = bnd[1] - bnd[0]
    outs = [e[0] - h / 2, e[0] - 7 * h, top + h / 2, top + 9 * h, -1e12, 1e12]
    return vals, mids, outs


def make_points(orc, cells, rng, budget):
    ax, ay = orc.ax, orc.ay
    xv, xm, xo = axis_values(ax, rng, False)
    yv, ym, yo = axis_values(ay, rng, False)
    pts = []
    small = (len(xv) + len(xm)) * (len(yv) + len(ym)) <= budget
    if small:
        for x in xv + xm + xo:
            for y in yv + ym + yo:
                pts.append((x, y))
    else:
        xs_, ys_ = ax.e + [float(ax.top)], ay.e + [float(ay.top)]
        sel = cells if len(cells) <= 60 else rng.sample(cells, 60)
        for (i, j) in sel:  # corners, edge midpoints, centre of the cell
            cx = [xs_[i], (xs_[i] + xs_[i + 1]) / 2, xs_[i + 1]]
            cy = [ys_[j], (ys_[j] + ys_[j + 1]) / 2, ys_[j + 1]]
            pts += [(x, y) for x in cx for y in cy]
            pts += [(_ulps(cx[a], k), cy[b]) for a in (0, 2) for b in (0, 1, 2) for k in (-1, 1)]
            pts += [(cx[a], _ulps(cy[b], k)) for a in (0, 1, 2) for b in (0, 2) for k in (-1, 1)]
        allx, ally = xv + xm + xo, yv + ym + yo
        while len(pts) < budget:
            k = rng.random()
            if k < 0.4:
                pts.append((rng.choice(xv), rng.choice(ym + yv)))
            elif k < 0.8:
                pts.append((rng.choice(xm + xv), rng.choice(yv)))
            else:
                pts.append((rng.choice(allx), rng.choice(ally)))
    # hole centres (bounding-box positions without an active cell)
    act = orc.active
    holes = [(i, j) for i in range(ax.n) for j in range(ay.n) if (i, j) not in act]
    xs_, ys_ = ax.e + [float(ax.top)], ay.e + [float(ay.top)]
    for (i, j) in (holes if len(holes) <= 40 else rng.sample(holes, 40)):
        pts.append(((xs_[i] + xs_[i + 1]) / 2, (ys_[j] + ys_[j + 1]) / 2))
        pts.append((xs_[i], ys_[j]))
    # de-duplicate, keep order
    seen, out = set(), []
    for p in pts:
        if p not in seen and all(math.isfinite(t) for t in p):
            seen.add(p)
            out.append(p)
    return out


# ----------------------------------------------------------------------------------------------- implementation
def impl_answers(region, pts):
    """per point: polygon index or 'o'; from the vectorised get_masked and get_index_of. Also returns API disagreements."""
    lons = numpy.array([p[0] for p in pts])
    lats = numpy.array([p[1] for p in pts])
    problems = []
    masked = numpy.asarray(region.get_masked(lons, lats)).astype(bool)
    ans = ["o"] * len(pts)
    keep = numpy.where(~masked)[0]
    if len(keep):
        try:
            idx = region.get_index_of(lons[keep], lats[keep])
            for k, v in zip(keep, idx):
                ans[k] = int(v)
        except ValueError:
            # get_masked says inside, get_index_of says outside for at least one point: find them
            for k in keep:
                try:
                    ans[k] = int(region.get_index_of([lons[k]], [lats[k]])[0])
                except ValueError:
                    problems.append((int(k), "get_masked False but get_index_of raises ValueError"))
                    ans[k] = "o"
    return ans, masked, problems


def _catalog(region, pts):
    from csep.core.catalogs import CSEPCatalog
    data = [(str(k), 1000 * k, float(lat), float(lon), 10.0, 5.0) for k, (lon, lat) in enumerate(pts)]
    return CSEPCatalog(data=data, region=region)


def impl_catalog(region, pts):
    """filter_spatial survivors (positions) and spatial_counts (list or 'E')"""
    cat = _catalog(region, pts)
    try:
        sc = [int(v) for v in cat.spatial_counts()]
        if any(float(v) != int(v) for v in cat.spatial_counts()):
            sc = "non-integer"
    except ValueError:
        sc = "E"
    except Exception as e:  # any other exception class is not what the property promises
        sc = "EXC:" + type(e).__name__
    try:
        kept = cat.filter_spatial(region=region, in_place=False)
        fs = [int(i) for i in kept.get_event_ids()]
        cat2 = _catalog(region, pts)
        cat2.filter_spatial()  # in place, region bound to the catalog
        fs2 = [int(i) for i in cat2.get_event_ids()]
    except Exception as e:
        fs = fs2 = "EXC:" + type(e).__name__
    return sc, fs, fs2


# ----------------------------------------------------------------------------------------------- one region
def region_key(spec):
    return json.dumps(spec, sort_keys=True) if spec["kind"] == "shipped" else \
        json.dumps([spec["ax"], spec["ay"], spec["dh"], spec["cells"], spec.get("mask"), spec.get("origins")])


def check_region(run, drv, pending, spec, pts=None, rng=None, budget=1500, arrays=True, ncat=4, tag=""):
    try:
        region, cells, flags = build_region(spec)
    except Exception as e:
        if spec["kind"] == "shipped":
            run.extra.setdefault("shipped_unavailable", {})[spec["name"]] = f"{type(e).__name__}: {str(e)[:80]}"
            run.count("shipped-unavailable")
            return
        run.oracle_failure(dict(region=spec, points=[]), f"constructor raised {type(e).__name__}: {e}")
        return
    if spec["kind"] == "shipped":
        run.extra.setdefault("shipped_covered", [])
        if spec["name"] not in run.extra["shipped_covered"]:
            run.extra["shipped_covered"].append(spec["name"])
    base = dict(region=spec if spec["kind"] == "shipped" or len(spec["cells"]) <= 700 else dict(spec), tag=tag)
    if cells is None:
        run.oracle_failure(dict(base, points=[]), "a polygon origin is not one of the region's edge coordinates xs / ys")
        return
    nx, ny = len(region.xs), len(region.ys)
    # the edge arrays must be the cell origins themselves (lon_i is the lower side of cell i); shipped regions compute
    # their origins as midpoint - dh/2 in floating point and may be a few ulps off the edges
    off = 0
    for k, ((i, j), poly) in enumerate(zip(cells, region.polygons)):
        same = i < nx and j < ny and float(region.xs[i]) == float(poly.origin[0]) and float(region.ys[j]) == float(poly.origin[1])
        loose = spec["kind"] == "shipped" or spec.get("origins") == "float"
        if not same and loose and i < nx and j < ny and \
                abs(float(region.xs[i]) - float(poly.origin[0])) <= 4 * math.ulp(max(abs(float(region.xs[0])), abs(float(region.xs[-1])))) and \
                abs(float(region.ys[j]) - float(poly.origin[1])) <= 4 * math.ulp(max(abs(float(region.ys[0])), abs(float(region.ys[-1])))):
            off += 1
        elif not same:
            run.oracle_failure(dict(base, points=[], polygon=k),
                               f"edge arrays do not contain the origin of polygon {k}: origin={poly.origin!r} "
                               f"nx={nx} ny={ny} i={i} j={j}")
            return
    if spec["kind"] == "shipped":
        run.extra.setdefault("shipped_origins_off_edge_by_ulps", {})[spec["name"]] = off
    elif off:
        run.count("float-origins-off-edge-by-ulps", off)
    orc = Oracle(region, cells, flags)
    if pts is None:
        pts = make_points(orc, sorted(set(cells)), rng, budget)
    rid = hash(region_key(spec))
    try:
        ans, masked, problems = impl_answers(region, pts)
    except Exception as e:
        run.oracle_failure(dict(base, points=[[repr(p[0]), repr(p[1])] for p in pts[:50]]),
                           f"lookup of {len(pts)} points raised {type(e).__name__}: {e}")
        return
    for k, what in problems:
        run.oracle_failure(dict(base, points=[[repr(pts[k][0]), repr(pts[k][1])]]), what)
    exact_only = []
    for k, (p, a) in enumerate(zip(pts, ans)):
        allowed, exact, inband = orc.allowed(p[0], p[1])
        near = inband or a == "o" or exact == "o" or _near_boundary(orc, p)
        run.case(dict(base, points=[[repr(p[0]), repr(p[1])]]) if run.evaluations < 4 else None,
                 (rid, p[0], p[1]) if near else None)
        run.count("in-band" if inband else ("outside" if exact == "o" else "inside"))
        if not inband:
            exact_only.append(k)
        if a not in allowed:
            case = dict(base, points=[[repr(p[0]), repr(p[1])]])
            detail = (f"point ({p[0]!r}, {p[1]!r}) attributed to {a!r}; the property allows {sorted(map(str, allowed))} "
                      f"(nx={nx}, ny={ny}, dh={region.dh!r})")
            sig = None
            if a != "o":
                fx, fy = Fraction(p[0]), Fraction(p[1])
                if (nx == 1 and fx >= orc.ax.top) or (ny == 1 and fy >= orc.ay.top):
                    # would the answer be allowed if the single column / row were open-ended? only then it is D4
                    sx = {0} if (nx == 1 and fx >= orc.ax.top) else orc.ax.allowed(p[0])[0]
                    sy = {0} if (ny == 1 and fy >= orc.ay.top) else orc.ay.allowed(p[1])[0]
                    if a in {orc.at(i, j) for i in sx for j in sy}:
                        sig = D4
            run.count("known-D4" if sig else "ORACLE-FAIL")
            run.oracle_failure(case, detail, signature=sig)
    # a coordinate exactly on a cell boundary belongs to the cell that boundary opens: every polygon's own origin
    # must be attributed to that polygon (the last one listed there) when its position is active, else be outside
    olon = numpy.array([float(p.origin[0]) for p in region.polygons])
    olat = numpy.array([float(p.origin[1]) for p in region.polygons])
    om = numpy.asarray(region.get_masked(olon, olat)).astype(bool)
    oexp = [orc.at(i, j) for (i, j) in cells]
    ogot = ["o"] * len(cells)
    okeep = numpy.where(~om)[0]
    if len(okeep):
        try:
            for k, v in zip(okeep, region.get_index_of(olon[okeep], olat[okeep])):
                ogot[k] = int(v)
        except Exception:
            ogot = None
    run.case(None, None)
    run.count("own-origins")
    if ogot != oexp:
        k = next((k for k in range(len(cells)) if ogot is None or ogot[k] != oexp[k]), 0)
        run.oracle_failure(dict(base, points=[[repr(float(olon[k])), repr(float(olat[k]))]]),
                           f"origin of polygon {k} is attributed to {None if ogot is None else ogot[k]!r}, expected {oexp[k]!r}")
    # scalar / list input paths on a few points
    for k in (rng.sample(range(len(pts)), min(12, len(pts))) if rng else range(min(len(pts), 12))):
        p = pts[k]
        try:
            v = region.get_index_of([p[0]], [p[1]])
            single = int(numpy.asarray(v).ravel()[0])
        except ValueError:
            single = "o"
        except Exception as e:
            single = "EXC:" + type(e).__name__
        m1 = bool(numpy.asarray(region.get_masked([p[0]], [p[1]])).ravel()[0])
        if single != ans[k] or m1 != bool(masked[k]) or (single == "o") != m1:
            run.oracle_failure(dict(base, points=[[repr(p[0]), repr(p[1])]]),
                               f"one-point lookup {single!r}/masked={m1} differs from the array lookup {ans[k]!r}/masked={bool(masked[k])}")
    # catalogs: all points; only unmasked points; random subsets (with duplicates); empty
    cats = []
    if ncat > 0:
        inside = [k for k in range(len(pts)) if ans[k] != "o"]
        pool = list(range(len(pts)))
        cats.append(inside[:400])
        cats.append([])
        if rng is not None:
            ex_in = [k for k in inside if k in set(exact_only)]
            ex_all = list(exact_only)
            for c in range(ncat):
                # half of the catalogs avoid the round-off band, so that the model comparison is exact
                if c % 2 == 0 and ex_all:
                    src = ex_in if (ex_in and rng.random() < 0.6) else ex_all
                else:
                    src = inside if (inside and rng.random() < 0.6) else pool
                cats.append([rng.choice(src) for _ in range(rng.randint(1, 60))])
        else:
            cats.append(pool[:400])
    cat_impl = []
    for ids in cats:
        cp = [pts[k] for k in ids]
        sc, fs, fs2 = impl_catalog(region, cp)
        # API agreement (direct oracle): survivors are the events get_masked lets through; counts are the histogram of
        # the per-point answers, ValueError exactly when one event is outside
        exp_fs = [pos for pos, k in enumerate(ids) if ans[k] != "o"]
        if any(ans[k] == "o" for k in ids):
            exp_sc = "E"
        else:
            exp_sc = [0] * len(region.polygons)
            for k in ids:
                exp_sc[ans[k]] += 1
        run.case(None, None)
        run.count("catalog")
        if fs != exp_fs or fs2 != exp_fs or sc != exp_sc:
            run.oracle_failure(dict(base, points=[[repr(p[0]), repr(p[1])] for p in cp], catalog=True),
                               f"catalog of {len(ids)} events: filter_spatial kept {fs[:20]} / {fs2[:20]} expected {exp_fs[:20]}; "
                               f"spatial_counts {str(sc)[:120]} expected {str(exp_sc)[:120]}")
        cat_impl.append((ids, sc, fs))
    # get_cartesian and the arrays
    cart = None
    if arrays:
        n = len(region.polygons)
        try:
            g = region.get_cartesian(numpy.arange(n, dtype=float))
            cart = [["n" if math.isnan(v) else str(int(v)) for v in rowv] for rowv in g]
        except Exception as e:
            run.oracle_failure(dict(base, points=[]), f"get_cartesian raised {type(e).__name__}: {e}")
            return
        # direct oracle on the arrays: unmasked exactly at active positions, index = last polygon listed there
        bad = None
        for j in range(ny):
            for i in range(nx):
                exp = orc.at(i, j)
                got = cart[j][i]
                m = int(region.bbox_mask[j, i])
                if (exp == "o") != (got == "n") or (exp != "o" and str(exp) != got) or (m == 1) != (exp == "o"):
                    bad = (i, j, exp, got, m)
        run.case(None, None)
        run.count("arrays")
        if bad:
            run.oracle_failure(dict(base, points=[]), f"bbox arrays: position (col,row)={bad[:2]} expected {bad[2]} "
                                                      f"get_cartesian {bad[3]} bbox_mask {bad[4]}")
    # queue the model
    line = " ".join([
        "c01_region",
        ",".join(frac(x) for x in region.xs), ",".join(frac(y) for y in region.ys),
        ",".join(str(i) for i, _ in cells), ",".join(str(j) for _, j in cells), ",".join(str(f) for f in flags),
        ",".join(frac(p[0]) for p in pts) if pts else "-", ",".join(frac(p[1]) for p in pts) if pts else "-",
        ";".join((",".join(str(k) for k in ids) if ids else "-") for ids, _, _ in cat_impl) if cat_impl else "-",
        "1" if arrays else "0"])
    q = drv.ask(line)
    pending.append(dict(q=q, base=base, pts=pts, ans=ans, masked=masked, cart=cart, cats=cat_impl,
                        exact_only=set(exact_only), ncell=len(region.polygons)))


def _near_boundary(orc, p):
    for axis, v in ((orc.ax, p[0]), (orc.ay, p[1])):
        c = bisect.bisect_right(axis.e, v)
        for m in (c - 1, c):
            if 0 <= m <= axis.n:
                b = axis.e[m] if m < axis.n else float(axis.top)
                if abs(v - b) <= 4 * axis.band_at(m) + 8 * math.ulp(b):
                    return True
    return False


def flush(run, drv, pending):
    out = drv.run()
    for rec in pending:
        toks = out[rec["q"]].split(" ")
        base = rec["base"]
        if len(toks) != 3:
            run.mismatch(dict(base, points=[]), "impl", out[rec["q"]][:200])
            continue
        cart_m, allowed_m, cats_m = toks
        # per-point partition
        pts, ans = rec["pts"], rec["ans"]
        al = allowed_m.split(";") if pts else []
        if len(al) != len(pts):
            run.mismatch(dict(base, points=[]), f"{len(pts)} points", f"{len(al)} answers")
            continue
        for k, (p, a, s) in enumerate(zip(pts, ans, al)):
            if str(a) not in s.split("|"):
                run.mismatch(dict(base, points=[[repr(p[0]), repr(p[1])]]), str(a), s)
        # arrays
        if rec["cart"] is not None:
            cm = [r.split(",") for r in cart_m.split(";")]
            if cm != rec["cart"]:
                run.mismatch(dict(base, points=[], what="get_cartesian"), str(rec["cart"])[:300], str(cm)[:300])
        # catalogs: exact comparison whenever no event of the catalog lies in a band
        if rec["cats"]:
            cl = cats_m.split(";")
            for (ids, sc, fs), s in zip(rec["cats"], cl):
                if any(k not in rec["exact_only"] for k in ids):
                    run.count("catalog-with-band-point (API agreement only)")
                    continue
                f = dict(t.split(":", 1) for t in s.split("!"))
                m_sc = "E" if f["sc"] == "E" else ([] if f["sc"] == "-" else [int(v) for v in f["sc"].split(",")])
                m_fs = [] if f["fs"] == "-" else [int(v) for v in f["fs"].split(",")]
                m_gi = "E" if f["gi"] == "E" else ([] if f["gi"] == "-" else [int(v) for v in f["gi"].split(",")])
                i_fs = [ids[pos] for pos in fs] if isinstance(fs, list) else fs
                i_gi = "E" if any(ans[k] == "o" for k in ids) else [ans[k] for k in ids]
                i_gm = ["1" if ans[k] == "o" else "0" for k in ids]
                m_gm = [] if f["gm"] == "-" else f["gm"].split(",")
                if m_sc != sc or m_fs != i_fs or m_gi != i_gi or m_gm != i_gm:
                    run.mismatch(dict(base, points=[[repr(pts[k][0]), repr(pts[k][1])] for k in ids], catalog=True),
                                 dict(sc=str(sc)[:200], fs=str(i_fs)[:200], gi=str(i_gi)[:200]), s[:600])
    pending.clear()
    drv.lines = []


# ----------------------------------------------------------------------------------------------- generators
NICE = ["0.05", "0.1", "0.25", "0.5", "1", "2"]


def gen_lattice(rng, tier):
    if rng.random() < 0.6:
        dh = Decimal(rng.choice(NICE))
    else:
        dh = Decimal(rng.randint(1, 400)).scaleb(-rng.choice([1, 2, 3]))
    kind = rng.choice(["neg", "pos", "zero-edge", "zero-cross", "tiny", "multiple"])
    shape = rng.choice(["1x1", "1xn", "nx1", "small", "small", "medium", "medium", "2xn"])
    big = 25 if tier == "quick" else 40
    nx, ny = dict([("1x1", (1, 1)), ("1xn", (1, rng.randint(2, 12))), ("nx1", (rng.randint(2, 12), 1)),
                   ("small", (rng.randint(2, 6), rng.randint(2, 6))),
                   ("medium", (rng.randint(7, big), rng.randint(7, big))),
                   ("2xn", (2, rng.randint(2, 9)))])[shape]

    def anchor(n):
        if kind == "neg":
            return Decimal(rng.randint(-1800, -1)).scaleb(-rng.choice([0, 1, 2])) - n * dh
        if kind == "pos":
            return Decimal(rng.randint(1, 1800)).scaleb(-rng.choice([0, 1, 2]))
        if kind == "zero-edge":
            return -dh * rng.randint(0, n)
        if kind == "zero-cross":
            return -dh * rng.randint(0, n) + Decimal(rng.randint(-99, 99)).scaleb(-3)
        if kind == "tiny":
            return Decimal(rng.randint(-30, 30)).scaleb(-rng.choice([2, 3, 4]))
        return dh * rng.randint(-300, 300)

    ax, ay = anchor(nx), anchor(ny)
    full = [(i, j) for i in range(nx) for j in range(ny)]
    cells = list(full)
    hole = rng.choice(["none", "none", "random", "rect", "column", "row", "sparse"])
    if len(full) > 2:
        if hole == "random":
            cells = [c for c in full if rng.random() > 0.25]
        elif hole == "sparse":
            cells = [c for c in full if rng.random() > 0.7]
        elif hole == "rect" and nx > 2 and ny > 2:
            i0, i1 = sorted(rng.sample(range(nx), 2))
            j0, j1 = sorted(rng.sample(range(ny), 2))
            cells = [c for c in full if not (i0 <= c[0] < i1 and j0 <= c[1] < j1)]
        elif hole == "column" and nx > 2:
            k = rng.randrange(1, nx - 1)
            cells = [c for c in full if c[0] != k]
        elif hole == "row" and ny > 2:
            k = rng.randrange(1, ny - 1)
            cells = [c for c in full if c[1] != k]
    if not cells:
        cells = [rng.choice(full)]
    order = rng.choice(["row", "col", "shuffle", "shuffle"])
    if order == "row":
        cells.sort(key=lambda c: (c[1], c[0]))
    elif order == "col":
        cells.sort()
    else:
        rng.shuffle(cells)
    if rng.random() < 0.2:  # duplicates
        for _ in range(rng.randint(1, 3)):
            cells.insert(rng.randrange(len(cells) + 1), rng.choice(cells))
    mask = None
    if rng.random() < 0.3:
        mask = [1 if rng.random() < 0.75 else rng.choice([0, 0, 2]) for _ in cells]
    return dict(kind="lattice", ax=str(ax), ay=str(ay), dh=str(dh), cells=[list(c) for c in cells], mask=mask,
                ctor=rng.choice(["from_origins", "polygons"]), dh_int=rng.random() < 0.5,
                origins="float" if rng.random() < 0.2 else "decimal",
                meta=f"{kind}/{shape}/{hole}/{order}")


def _spec_cells_tuple(spec):
    spec = dict(spec)
    spec["cells"] = [tuple(c) for c in spec["cells"]]
    return spec


def run_corpus(run, drv, pending):
    for path in sorted(glob.glob(os.path.join(VERIF, "corpus", "C01", "*.json"))):
        c = json.load(open(path))
        pts = [(float(a), float(b)) for a, b in c["points"]]
        check_region(run, drv, pending, _spec_cells_tuple(c["region"]), pts=pts, rng=None, arrays=True,
                     tag="corpus:" + os.path.basename(path))
        run.count("corpus")


def run(run, rng, tier):
    drv, pending = Driver(), []
    run_corpus(run, drv, pending)
    nlat = 110 if tier == "quick" else 1600
    budget = 1400 if tier == "quick" else 2500
    for n in range(nlat):
        spec = _spec_cells_tuple(gen_lattice(rng, tier))
        run.count("lattice:" + spec["meta"].split("/")[1])
        check_region(run, drv, pending, spec, rng=rng, budget=budget, tag=spec["meta"])
        if len(pending) >= 25:
            flush(run, drv, pending)
    flush(run, drv, pending)
    # shipped regions
    if tier == "quick":
        names = rng.sample(["nz", "nzc", "itc", "carelmc"], 2) + ["global1", "it", "carelm"]
    else:
        names = list(SHIPPED)
    for name in names:
        big = name.startswith("global")
        check_region(run, drv, pending, dict(kind="shipped", name=name), rng=rng,
                     budget=(600 if big else 2500) if tier == "quick" else (2500 if big else 8000),
                     arrays=not big, ncat=2, tag="shipped:" + name)
        flush(run, drv, pending)
    run.assumptions.append("polygon k of a generated lattice is hashed by the library to the bounding-box position of its "
                           "lattice coordinates (checked through get_cartesian / bbox_mask on every region)")


def replay(run, payload):
    case = payload["case"]
    drv, pending = Driver(), []
    pts = [(float(a), float(b)) for a, b in case.get("points", [])]
    check_region(run, drv, pending, _spec_cells_tuple(case["region"]) if case["region"]["kind"] != "shipped"
                 else case["region"], pts=pts or None, rng=None if pts else __import__("random").Random(0),
                 arrays=case["region"]["kind"] != "shipped" or not case["region"]["name"].startswith("global"),
                 tag="replay")
    flush(run, drv, pending)
