"""C03 — gridding a catalog counts every event exactly once, in its own cell and bin.

Correspondence of CSEPCatalog.spatial_counts / spatial_event_probability / magnitude_counts / spatial_magnitude_counts
(Cartesian and quadtree regions) with Model/Gridding.lean, plus a direct exact recount (fractions / exact float compares)."""
import bisect
import glob
import json
import math
import os
import random
from decimal import Decimal
from fractions import Fraction

import numpy


def _qt_bounds(region):
    from .c17 import qt_bounds
    return qt_bounds(region)

from .core import Driver, VERIF, frac
from . import c01
from . import c03_helpers as hp
from .c03_seq import _guarded

LEVEL_TEXT = ("Proof: for every list of events (any length, duplicates, any order) and every numbers of cells and bins, entry "
              "(i,k) of the modelled space-magnitude array is the number of events with cell i and bin k, its total is the "
              "number of events, its marginals are the spatial and magnitude counts, occupancy is 1 exactly where the count "
              "is positive, the count of bin k equals the length of the magnitude-range filter, outside / below-minimum events "
              "make space-magnitude gridding raise and are left uncounted by the magnitude histogram, and with a quadtree "
              "region the i-th location is paired with the i-th magnitude or the call is rejected (induction over the event "
              "list, kernel-checked). Tied to the code by a correspondence over random catalogs on Cartesian lattices and "
              "quadtree grids. The remaining gridding code paths are inside the model as well: the quadtree helpers "
              "_get_spatial_counts / _get_spatial_magnitude_counts (proved: they keep exactly the events at or above the "
              "minimum edge and, when a latitude lies strictly beyond the bounding box, within its bounds (south inclusive, north exclusive); reject a catalog with a kept event in no cell (space-magnitude); filter "
              "the caller's catalog in place; count every kept event once in its own cell and bin; equal the catalog-level "
              "arrays when nothing is filtered), the _bin_catalog_* helpers (= the partition-based counts), get_mag_idx / "
              "get_spatial_idx / dataframe columns (= the indices the count arrays use) and the bounding-box view "
              "get_cartesian / spatial_counts(cartesian=True) (value of a cell at its own position, NaN elsewhere). The "
              "hypothesis 'the lookups return indices inside the arrays' of the conservation / marginal theorems is discharged for "
              "both pipelines (smc_pipeline_cart / _quad). Which bins a call uses is in the model for every state of the region "
              "(bins / None / no attribute / no region) and every call sequence: explicit bins win and leave the region alone, "
              "region-bound calls are history independent, the default CSEP_MW_BINS branch and retbins included; the array "
              "CatalogForecast.get_expected_rates divides by n_cat is the count matrix of all catalogs' events or the call is rejected. "
              "Round 4: (a) the lookups AS THE CODE COMPUTES THEM in binary64 (C02's bit-exact bin1dF for magnitudes with any tol=, and for "
              "the Cartesian column / row) are inside the pipelines: conservation, marginals and the entry formula are proved for that float "
              "pipeline for every float64 magnitude and coordinate, the documented round-off band included, and the float bin is proved to be "
              "the exact bin or — only within the documented band below an edge — the bin that edge opens (magBinF_exact_or_band; regular "
              "float64 grids); (b) C03's quadtree lookup on the bounds rows of a quadkey list is proved to BE C17's _find_location on the keys, "
              "and on every grid built by from_catalog (any building catalog, threshold, zoom) or from_single_resolution every event of any "
              "catalog inside the covered domain is counted exactly once (total = events inside lon [-180,180) x the Mercator band), "
              "space-magnitude gridding returns iff all events are inside and none is below the first edge, entry (i,k) = events in tile i "
              "and bin k; with C17's real Mercator geometry the same in REAL coordinates: the total of spatial_counts is the number of events "
              "with -180 <= lon < 180 and -latmax <= lat < latmax (counts_on_from_catalog_total_real; the harness's rational "
              "representative of an event is sound by C17's representative_sound).")
LEVEL_NOTE = ("Two model routes are tied to the code: the exact route (lookups = exact meaning of C01 / C02; its generated coordinates and "
              "magnitudes are on an edge or well inside a cell / bin, so recount and model are unambiguous) and, since round 4, the "
              "float-faithful route (Model/GriddingFloat.lean: bin1dF of C02, itself proved equal to the definition regenerated from "
              "calc.py) that is compared bit for bit on arbitrary float64 magnitudes incl. the band below an edge and tol=, and on "
              "Cartesian coordinates a few ulps below a cell edge. Quadtree grids are compared through their bounds rows AND through "
              "their quadkeys (C17's model). Trusted: numpy.add.at / fancy assignment semantics, pandas column assignment.")
DESIGN_REF = "DESIGN.md §4 C03"
TECHNIQUE = "Lean 4 proof (exact layer) + differential correspondence + exact direct recount"

THEOREMS = ["Gridding.smc_ok_iff", "Gridding.smc_entry", "Gridding.smc_entry_pipeline", "Gridding.smc_total", "Gridding.smc_sum_mag", "Gridding.smc_sum_space",
            "Gridding.occupancy_iff", "Gridding.magCount_eq_filter", "Gridding.smc_rejects_outside",
            "Gridding.smc_rejects_below_min", "Gridding.magCounts_ignores_below_min", "Gridding.quadtree_pairing",
            "Gridding.quadtree_counts", "Gridding.occupancy_entry", "Gridding.qtFind_eq_some_iff",
            "Gridding.qtFind_eq_none_iff",
            # helper code paths (Properties/C03_Helpers.lean)
            "Gridding.qt_filters_in_place", "Gridding.qt_kept_iff", "Gridding.qt_kept_sublist", "Gridding.qt_kept_count",
            "Gridding.qt_kept_all", "Gridding.qt_sc_result", "Gridding.qt_sc_entry", "Gridding.qt_sc_total",
            "Gridding.qt_sc_eq_catalog_level", "Gridding.qt_smc_located", "Gridding.qt_smc_entry",
            "Gridding.qt_smc_eq_catalog_level", "Gridding.qt_smc_rejects_unlocated", "Gridding.qt_smc_rejects_single_unlocated",
            "Gridding.qt_smc_ok_iff", "Gridding.qt_smc_never_shape_error", "Gridding.qt_smc_eq_smcQuad_of_kept", "Gridding.qt_kept_has_bin", "Gridding.qt_bbox_contains_tiles",
            "Gridding.qt_beyond_bounds_unlocated", "Gridding.qt_bound_event_kept_iff",
            "Gridding.bin_catalog_spatial_counts_eq", "Gridding.bin_catalog_probability_eq",
            "Gridding.bin_catalog_agree_catalog_level", "Gridding.bin_catalog_smc_eq", "Gridding.bin_catalog_smc_partition",
            "Gridding.bin_catalog_smc_agree", "Gridding.spatial_idx_cart_eq", "Gridding.spatial_idx_counts_cart",
            "Gridding.mag_idx_counts", "Gridding.df_columns_cart_ok_iff", "Gridding.df_groupby_eq_counts_cart",
            "Gridding.df_columns_quad_ok_iff", "Gridding.cartesian_places_cell", "Gridding.cartesian_nan_iff",
            "Gridding.gridded_cartesian_entry", "Gridding.marked_cartesian_entry",
            # whole pipelines, bins over call sequences, accumulation over a forecast (Properties/C03_Seq.lean)
            "Gridding.pipeline_cart_inRange", "Gridding.pipeline_quad_inRange", "Gridding.smc_pipeline_cart",
            "Gridding.smc_pipeline_quad", "Gridding.smc_sum_mag_quad", "Gridding.occupancy_quad", "Gridding.gcall_state",
            "Gridding.explicit_bins_win", "Gridding.calls_history_independent", "Gridding.calls_history_independent_noregion",
            "Gridding.mc_default_everywhere", "Gridding.finding_d41_unrepaired",
            "Gridding.default_bins_installed", "Gridding.retbins_same_counts", "Gridding.gcall_mc_entry",
            "Gridding.expected_counts_ok_iff", "Gridding.expected_counts_entry", "Gridding.expected_counts_single",
            "Gridding.expected_counts_rejects",
            # gridding on the quadtree grids the library builds: C03's counting composed with C17's grids (Properties/C03_Quadtree.lean)
            "QuadGridding.bounds_lookup_is_key_lookup", "QuadGridding.bounds_pipeline_is_key_pipeline", "QuadGridding.counts_on_entry",
            "QuadGridding.counts_on_entry_prefix_free", "QuadGridding.counts_on_occupancy", "QuadGridding.counts_on_total",
            "QuadGridding.counts_on_from_catalog_total", "QuadGridding.single_resolution_locate",
            "QuadGridding.counts_on_single_resolution_total", "QuadGridding.smc_on_from_catalog_ok_iff", "QuadGridding.smc_on_entry",
            "QuadGridding.smc_on_total", "QuadGridding.domain_real", "QuadGridding.counts_on_from_catalog_total_real",
            # the pipelines with the lookups as the code computes them in binary64, round-off band included (Properties/C03_Float.lean)
            "Gridding.magBinF_lt", "Gridding.cellOfF_lt", "Gridding.pipeline_cartF_inRange", "Gridding.pipeline_quadF_inRange",
            "Gridding.smc_pipeline_cartF", "Gridding.smc_pipeline_quadF", "Gridding.smc_entry_float", "Gridding.magBin_eq_ideal",
            "Gridding.magBinF_exact_or_band", "Gridding.float_pipeline_eq_exact", "Gridding.magBinF_below_min_rejected",
            # the quadtree helpers' filter statements through the text layer of C11 (Properties/C03_Text.lean)
            "Gridding.statement_denotes_bound", "Gridding.qt_prefilter_text_eq"]
TRUSTED = ["Lean 4.33 kernel", "axioms: propext, Classical.choice, Quot.sound at most",
           "numpy.add.at(out, idx, 1) adds one per occurrence; out[idx] = 1 sets (modelled as folds over the index list; since round 4 "
           "the folds addAt / setAt / addAtPairs are compared with the installed numpy on random index arrays on every run, incl. "
           "broadcasting of a length-1 index array, the IndexError on other length mismatches and index -1 = last column; a "
           "disagreement is a harness error)",
           "region and magnitude lookups are the exact ones away from the round-off band (properties C01 / C02 / C17)",
           "numpy.add.at with a pair of index arrays broadcasts them (modelled: equal lengths pairwise, a length-1 array "
           "repeated, IndexError otherwise); pandas rejects a column of the wrong length; float(str(x)) == x for the bounds "
           "and the minimum edge the quadtree helpers print into their filter statements is NO LONGER trusted: theorem "
           "qt_prefilter_text_eq (on C11's repr_reads_back) for every zero-or-normal binary64, and the model's viaText is compared "
           "with Python's float(str(x)) on every run",
           "exception classes of configuration errors (no region / no bins) are not compared, only raise-vs-return; the iteration "
           "protocol of CatalogForecast is C13's subject, here only the gridding and the accumulation of get_expected_rates",
           "the float theorems of the magnitude lookup (magBinF_exact_or_band) assume C02's RegularF64Grid / PointOK (regular float64 grid "
           "that resolves its step at the magnitude); conservation / marginals / entry formula of the float pipeline need no such hypothesis",
           "harness/c03.py, c03_helpers.py, c03_seq.py, c03_float.py generators, exact recount, band rule (harness/c02.py) and comparison; "
           "driver parsing (Proto.lean)"]
RULE = ("catalogs of 0..400 events (duplicates, events on cell corners / edges and on magnitude edges, controlled fraction "
        "outside the region / in holes / below the minimum magnitude, shuffled) on Cartesian lattices (holes, masks, 1xn, "
        "single cell) and quadtree grids (single resolution zoom 1-3, random multi-resolution quadkey sets with gaps); "
        "magnitude grids regular with 1..30 edges, explicit mag_bins (list / ndarray) and region-bound; a case is one "
        "(region, magnitude grid, catalog); non-trivial when the catalog has a duplicate, an edge event, an outside or a "
        "below-minimum event; distinct by (region, edges, event list). Helper paths: 30 % of those cases also drive the "
        "_bin_catalog_* helpers, get_spatial_idx / get_mag_idx and the dataframe columns (with and without bound magnitude "
        "bins); quadtree-helper cases (single resolution zoom 1-3, complete multi-resolution refinements, key sets with "
        "gaps; events exactly on the south / north / west / east bound of the grid, one ulp inside / outside the latitude "
        "bounds, beyond them, longitudes 180 / 181 / -181; magnitudes exactly at, one ulp below and below the minimum "
        "edge; catalogs in which nothing / something / everything is filtered, empty catalogs); bounding-box views of "
        "gridded forecasts on Cartesian lattices. Input classes listed in c03_helpers.EXCLUDED_INPUT_CLASSES (argument handling of the private helpers) are not generated. "
        "Call sequences: 500 (5000 thorough) sequences of 4-9 gridding calls on ONE catalog object bound to ONE region object "
        "(explicit bins A, region-bound, explicit bins B, region-bound again ...; spatial_magnitude_counts, magnitude_counts, "
        "get_mag_idx, spatial_counts, spatial_event_probability, to_dataframe), every step compared with the exact recount "
        "for the bins that step must use, the bins bound to the region unchanged afterwards. Region states: 450 (4500) sequences "
        "with the region carrying bins / magnitudes None / no magnitudes attribute / no region at all, magnitude_counts with and "
        "without retbins, every configuration-error branch (must raise), the default CSEP_MW_BINS branch; 350 (3500) forecasts of "
        "1-8 catalogs (some empty, some bound to another region, list or generator source) through get_expected_rates. "
        "Sessions: the region object is shared by two catalogs, the caller re-binds region.magnitudes, overwrites magnitudes in "
        "an event array and filters catalogs in place (also to empty) between calls; tol=, retbins, to_dataframe(with_datetime) "
        "with duplicate origin times. Sizes: 40 (300) catalogs with 130..70000 events in ONE (cell, bin) and more than 2^16 events, "
        "native and big-endian structured arrays. get_expected_rates also with carried filters applied on its first pass and "
        "store=False. magnitude_counts() without bins in every region state (default CSEP_MW_BINS since fix D41). Round 4: quadtree "
        "grids also refined by the library from a building catalog (from_catalog; the building catalog itself among the gridded events) "
        "and every quadtree case additionally through the quadkey route of the model (c03_quadkeys); 260 (3000) float cases: arbitrary "
        "float64 magnitudes — 1..5 ulps below / above an edge, at the rim of the band, around edge - tol, uniform, far above the top, "
        "below the first edge — with tol in {None, 1e-12, 1e-9, 1e-6}, bound / list / ndarray bins, Cartesian grids (holes, 1xn) with "
        "coordinates at centres, on corners and 1..3 ulps below a cell edge, and single-resolution quadtree grids: compared bit for bit "
        "with the float-faithful model, judged by the identities and the exact band rule of C02.")



# ----------------------------------------------------------------------------------------------- generators
def gen_edges(rng):
    start = Decimal(rng.choice(["2.5", "3.95", "4.0", "5.95", "0", "-1.0", "4.95", "0.05", "6"]))
    step = Decimal(rng.choice(["0.1", "0.1", "0.2", "0.5", "1", "0.25", "0.05"]))
    n = rng.choice([1, 2, 3, 5, 8, 13, 21, 30])
    return start, step, n


def edges_array(start, step, n, how):
    from csep.core.regions import magnitude_bins
    if how == "library" and n >= 2:
        e = magnitude_bins(float(start), float(start + (n - 1) * step), float(step))
        if len(e) == n:
            return numpy.asarray(e)
    return numpy.array([float(start + k * step) for k in range(n)])


def gen_mags(rng, edges, n, frac_below):
    e = [float(x) for x in edges]
    h = (e[1] - e[0]) if len(e) > 1 else 0.5
    out = []
    for _ in range(n):
        k = rng.random()
        if k < frac_below:
            out.append(rng.choice([e[0] - h / 2, e[0] - 3 * h, math.nextafter(e[0], -math.inf) - 1e-3 * h]))
        elif k < frac_below + 0.35:
            out.append(rng.choice(e))  # exactly on an edge: belongs to the bin the edge opens
        elif k < frac_below + 0.45:
            out.append(e[-1] + rng.choice([h / 2, h, 7.5 * h, 100.0]))  # open top bin
        else:
            j = rng.randrange(len(e))
            out.append(e[j] + h * rng.choice([0.25, 0.5, 0.625]))
    return out


def quad_region(rng, mags):
    from csep.core.regions import QuadtreeGrid2D
    k = rng.random()
    if k < 0.3:
        zoom = rng.choice([1, 2, 2, 3])
        return QuadtreeGrid2D.from_single_resolution(zoom, magnitudes=mags), f"single{zoom}"
    if k < 0.5:
        # a grid refined by the library from a building catalog (clustered / on tile boundaries): complete partition of the domain
        from csep.core.catalogs import CSEPCatalog
        from . import c17
        zoom, thr = rng.choice([1, 2, 3, 4, 5]), rng.choice([0, 1, 1, 3, 8])
        gk = rng.choice(["clustered", "boundary", "uniform"])
        ev = c17.gen_events(rng, gk, rng.choice([3, 12, 40] if gk == "boundary" else [0, 3, 12, 40]), zoom)
        bc = CSEPCatalog(data=[(str(i), 1000 * i, la, lo, 5.0, 4.0) for i, (lo, la) in enumerate(ev)], compute_stats=False)
        r = QuadtreeGrid2D.from_catalog(bc, thr, zoom=zoom, magnitudes=mags)
        if len(r.quadkeys) <= 160:
            try:
                r._c03_building_events = ev        # harness-side note on the object; a class that forbids it just goes without
            except Exception:
                pass
            return r, f"catalog{len(r.quadkeys)}"
        return QuadtreeGrid2D.from_single_resolution(2, magnitudes=mags), "single2"
    # random multi-resolution set of disjoint tiles with gaps
    keys = []

    def split(q, depth):
        if depth >= 4 or rng.random() < 0.35:
            if rng.random() < 0.8:
                keys.append(q)
            return
        for c in "0123":
            split(q + c, depth + 1)

    for q in "0123":
        split(q, 1)
    if not keys:
        keys = ["0", "3"]
    if rng.random() < 0.5:
        rng.shuffle(keys)
    keys = keys[:120]
    return QuadtreeGrid2D.from_quadkeys(keys, magnitudes=mags), f"quadkeys{len(keys)}"


def gen_events_cart(rng, region, orc, n, frac_out):
    xs = orc.ax.e + [float(orc.ax.top)]
    ys = orc.ay.e + [float(orc.ay.top)]
    act = sorted(orc.active)
    holes = [(i, j) for i in range(orc.ax.n) for j in range(orc.ay.n) if (i, j) not in orc.active]
    hx, hy = xs[1] - xs[0], ys[1] - ys[0]
    pool = []

    def inside(i, j):
        fx, fy = rng.choice([0.0, 0.0, 0.25, 0.5, 0.75]), rng.choice([0.0, 0.0, 0.25, 0.5, 0.75])
        return (xs[i] if fx == 0 else xs[i] + fx * (xs[i + 1] - xs[i]), ys[j] if fy == 0 else ys[j] + fy * (ys[j + 1] - ys[j]))

    for _ in range(max(1, n // 3)):
        if rng.random() < frac_out or not act:
            k = rng.random()
            if holes and k < 0.4:
                pool.append(inside(*rng.choice(holes)))
            elif k < 0.6 and orc.ax.n >= 2:
                pool.append((xs[-1] + rng.choice([0.0, hx / 2, 5 * hx]), ys[0] + hy / 4))  # on / beyond the east side
            elif k < 0.8 and orc.ay.n >= 2:
                pool.append((xs[0] + hx / 4, ys[-1] + rng.choice([0.0, hy / 2])))  # on / beyond the north side
            else:
                pool.append((xs[0] - rng.choice([hx / 2, 3 * hx]), ys[0] - rng.choice([hy / 2, 0.0])))  # west / south
        else:
            pool.append(inside(*rng.choice(act)))
    return [rng.choice(pool) for _ in range(n)]


def gen_events_quad(rng, region, n, frac_out):
    b = _qt_bounds(region)
    pool = []
    for _ in range(max(1, n // 3)):
        t = b[rng.randrange(len(b))]
        k = rng.random()
        if k < frac_out:
            pool.append(rng.choice([(t[2], t[1]), (t[0], t[3]), (rng.uniform(-179, 179), rng.choice([86.0, -86.5])),
                                    (rng.uniform(-179, 179), rng.uniform(-80, 80))]))  # may or may not be covered
        else:
            fx, fy = rng.choice([0.0, 0.0, 0.25, 0.5]), rng.choice([0.0, 0.0, 0.25, 0.5])
            pool.append((t[0] + fx * (t[2] - t[0]), t[1] + fy * (t[3] - t[1])))
    return [(float(p[0]), float(p[1])) for p in (rng.choice(pool) for _ in range(n))]


# ----------------------------------------------------------------------------------------------- implementation
# ---- round 7: the VARIANT under which the objects of one case are used (case["variant"], replayable):
#   region_copy  (h)  the region is replaced by copy.copy / copy.deepcopy / pickle round trip / to_dict -> from_dict BEFORE gridding
#   catalog_copy (h)  every catalog (holding the region) is deep-copied / pickled / shallow-copied before its gridding call
#   subclass     (j)  catalogs of a USER SUBCLASS that stores its columns negated and overrides the documented accessors
#                     get_longitudes / get_latitudes / get_magnitudes consistently: the accessors are the source of truth
#   numeric      (k)  the calls run under numpy.errstate(divide='raise', invalid='raise') and / or a low-precision decimal context
_V = {}
COPY_UNSUPPORTED = {}        # (class name, form) -> reason, probed on the tree under test: that form is left out for that object


def copy_obj(x, form):
    """the image of `x` under one of the copy forms; None when the tree under test cannot copy this object that way"""
    import copy
    import pickle
    key = (type(x).__name__, form)
    if key in COPY_UNSUPPORTED:
        return None
    try:
        if form == "copy":
            return copy.copy(x)
        if form == "deepcopy":
            return copy.deepcopy(x)
        if form == "pickle":
            return pickle.loads(pickle.dumps(x))
        if form == "dict":
            y = type(x).from_dict(x.to_dict())
            if getattr(x, "magnitudes", None) is not None:      # to_dict drops the bound magnitudes (documented exclusion): re-bound
                y.magnitudes = x.magnitudes
            return y
    except Exception as ex:
        COPY_UNSUPPORTED[key] = f"{type(ex).__name__}: {ex}"[:120]
        return None
    raise ValueError(form)


_NEG_CLS = []


def _negated_class():
    if not _NEG_CLS:
        from csep.core.catalogs import CSEPCatalog

        class NegatedColumnsCatalog(CSEPCatalog):
            """a user catalog whose file stores longitude, latitude and magnitude with the opposite sign; the documented accessors
            return the real values (negation is exact in binary64)"""

            def get_longitudes(self):
                return -self.catalog['longitude']

            def get_latitudes(self):
                return -self.catalog['latitude']

            def get_magnitudes(self):
                return -self.catalog['magnitude']
        _NEG_CLS.append(NegatedColumnsCatalog)
    return _NEG_CLS[0]


def _cat(region, evs):
    from csep.core.catalogs import CSEPCatalog
    if _V.get("subclass") == "negated":
        data = [(str(k), 1000 * k, -float(lat), -float(lon), 10.0, -float(m)) for k, (lon, lat, m) in enumerate(evs)]
        cat = _negated_class()(data=data, region=region)
    else:
        data = [(str(k), 1000 * k, float(lat), float(lon), 10.0, float(m)) for k, (lon, lat, m) in enumerate(evs)]
        cat = CSEPCatalog(data=data, region=region)
    if _V.get("catalog_copy"):
        c2 = copy_obj(cat, _V["catalog_copy"])
        cat = cat if c2 is None else c2
    return cat


def gen_variant(rng, cart):
    """about a third of the random cases are run under one (sometimes two) of the round-7 variants"""
    v = {}
    k = rng.random()
    if k < 0.16:
        v["region_copy"] = rng.choice(["copy", "deepcopy", "pickle"] + (["dict"] if cart else []))
    elif k < 0.24:
        v["catalog_copy"] = rng.choice(["deepcopy", "pickle", "copy"])
    elif k < 0.30:
        v["subclass"] = "negated"
    if rng.random() < 0.10:
        v["numeric"] = rng.choice(["errstate", "decimal", "both"])
    return v


def _ints(a):
    a = numpy.asarray(a)
    if a.size and not numpy.all(a == numpy.round(a)):
        return "non-integer"
    return a.astype(numpy.int64).tolist()


REJECTION_CLASSES = {}


def _call(f):
    """canonical output: the integer array, or "E" = the call REJECTED the input. The property says "rejects", not with which
    exception class or message: every exception counts as a rejection (classes are recorded in the histogram, never judged);
    where the property demands a result, "E" differs from that result and is reported"""
    import contextlib
    import decimal
    with contextlib.ExitStack() as st:
        num = _V.get("numeric")
        if num in ("errstate", "both"):
            st.enter_context(numpy.errstate(divide="raise", invalid="raise"))
        if num in ("decimal", "both"):
            ctx = st.enter_context(decimal.localcontext())
            ctx.prec = 3
        try:
            return _ints(f())
        except Exception as e:
            REJECTION_CLASSES[type(e).__name__] = REJECTION_CLASSES.get(type(e).__name__, 0) + 1
            return "E"


def impl(region, evs, mag_bins):
    """the four arrays, each from a fresh catalog; `mag_bins` None = use the bins bound to the region"""
    kw = {} if mag_bins is None else dict(mag_bins=mag_bins)
    sc = _call(lambda: _cat(region, evs).spatial_counts())
    sep = _call(lambda: _cat(region, evs).spatial_event_probability())
    mc = _call(lambda: _cat(region, evs).magnitude_counts(**kw))
    smc = _call(lambda: _cat(region, evs).spatial_magnitude_counts(**kw))
    return sc, sep, mc, smc


def impl_filter(region, evs, edges):
    """events kept by the equivalent magnitude-range filter of every bin"""
    out = []
    for k in range(len(edges)):
        st = [f"magnitude >= {edges[k]}"] + ([f"magnitude < {edges[k + 1]}"] if k + 1 < len(edges) else [])
        c = _cat(region, evs)
        if len(evs) == 0:
            out.append(0)
            continue
        out.append(int(c.filter(st, in_place=False).event_count))
    return out


# ----------------------------------------------------------------------------------------------- recount (oracle)
def recount(ncell, cell_of, edges, evs, cartesian):
    """exact recount from scratch; returns expected (sc, sep, mc, smc)"""
    e = [float(x) for x in edges]
    cells = [cell_of(lon, lat) for lon, lat, _ in evs]
    bins = []
    for _, _, m in evs:
        k = bisect.bisect_right(e, m) - 1  # float vs float comparisons are exact
        bins.append(k if k >= 0 else None)
    anyout = any(c is None for c in cells)
    sc = [0] * ncell
    for c in cells:
        if c is not None:
            sc[c] += 1
    sep = [1 if v > 0 else 0 for v in sc]
    mc = [0] * len(e)
    for b in bins:
        if b is not None:
            mc[b] += 1
    if cartesian and anyout and evs:
        sc = sep = "E"
    if evs and (anyout or any(b is None for b in bins)):
        smc = "E"
    else:
        smc = [[0] * len(e) for _ in range(ncell)]
        for c, b in zip(cells, bins):
            smc[c][b] += 1
    return sc, sep, mc, smc, cells, bins


def quad_cell_of(bounds):
    b = [tuple(float(v) for v in r) for r in bounds]

    def f(lon, lat):
        for k, (x0, y0, x1, y1) in enumerate(b):
            if x0 <= lon < x1 and y0 <= lat < y1:  # all operands are binary64: the comparisons are exact
                return k
        return None
    return f


# ----------------------------------------------------------------------------------------------- one case
@_guarded
def check_case(run, drv, pending, case, region, kind, cell_of, ncell, edges, evs, mode, cart_args=None, helpers=None,
               poly_cells=None):
    mag_bins = None if mode == "bound" else (list(map(float, edges)) if mode == "list" else numpy.asarray(edges, dtype=float))
    base = dict(case)
    _V.clear()
    _V.update(case.get("variant") or {})
    for k_, v_ in _V.items():
        run.count(f"variant:{k_}:{v_}")
    if _V.get("region_copy") == "dict" and getattr(region, "poly_mask", None) is not None and \
            any(int(f_) != 1 for f_ in numpy.asarray(region.poly_mask).ravel()):
        # the dict form of the unchanged tree carries no mask flags (to_dict writes name, dh, polygons, class_id): the image of a MASKED
        # lattice is another region; that form is left out for masked lattices (notes/C03.md, observation W-C03-3)
        run.count("variant:region_copy:dict:left-out-for-masked-lattice")
        _V.pop("region_copy")
    if _V.get("region_copy"):
        r2 = copy_obj(region, _V["region_copy"])
        if r2 is None:
            run.count(f"variant:region_copy:{_V['region_copy']}:unsupported-by-the-tree-for-{type(region).__name__}")
        else:
            region = r2
    try:
        got = impl(region, evs, mag_bins)
    except Exception as ex:
        run.oracle_failure(base, f"gridding raised {type(ex).__name__}: {ex}")
        return
    sc, sep, mc, smc = got
    e_sc, e_sep, e_mc, e_smc, cells, bins = recount(ncell, cell_of, edges, evs, kind == "cart")
    n = len(evs)
    nontriv = (len(set(evs)) < n) or any(c is None for c in cells) or any(b is None for b in bins) or \
        any(float(m) in set(map(float, edges)) for _, _, m in evs)
    run.case(base if run.evaluations < 4 else None,
             (case["rid"], tuple(map(float, edges)), tuple(evs)) if nontriv else None)
    run.count(f"{kind}:{'E' if smc == 'E' else 'ok'}:{'empty' if n == 0 else 'n>0'}")
    if any(c is None for c in cells):
        run.count("has-outside-event")
    if any(b is None for b in bins):
        run.count("has-below-min-event")
    problems = []
    # Cartesian region + an event outside it: the current lookup rejects the whole catalog. What the property demands is only that
    # the event is not counted in some other cell — leaving it uncounted (what the quadtree lookup does) is the other admissible answer
    alt_sc = [0] * ncell
    for c in cells:
        if c is not None:
            alt_sc[c] += 1
    alt = (alt_sc, [1 if v > 0 else 0 for v in alt_sc])
    if sc != e_sc and not (e_sc == "E" and sc == alt[0]):
        problems.append(f"spatial_counts {str(sc)[:150]} expected {str(e_sc)[:150]}")
    if sep != e_sep and not (e_sep == "E" and sep == alt[1]):
        problems.append(f"spatial_event_probability {str(sep)[:150]} expected {str(e_sep)[:150]}")
    if mc != e_mc:
        problems.append(f"magnitude_counts {str(mc)[:150]} expected {str(e_mc)[:150]}")
    if smc != e_smc:
        problems.append(f"spatial_magnitude_counts {str(smc)[:200]} expected {str(e_smc)[:200]}")
    # identities on the implementation's own output
    if smc != "E" and isinstance(smc, list):
        if sum(map(sum, smc)) != n:
            problems.append(f"total of the space-magnitude array {sum(map(sum, smc))} != number of events {n}")
        if sc != "E" and [sum(r) for r in smc] != sc:
            problems.append("sum over magnitude != spatial_counts")
        if any(len(r) != len(edges) for r in smc) or len(smc) != ncell:
            problems.append(f"space-magnitude array has shape ({len(smc)}, {sorted(set(len(r) for r in smc))}), the grid is "
                            f"({ncell}, {len(edges)})")
        elif [sum(r[k] for r in smc) for k in range(len(edges))] != mc:
            problems.append("sum over space != magnitude_counts")
    if sc != "E" and sep != "E" and isinstance(sc, list) and isinstance(sep, list):
        if [1 if v > 0 else 0 for v in sc] != sep:
            problems.append("occupancy map is not 1 exactly where the spatial count is positive")
    try:
        # (the range filters act on the stored columns: not comparable for the subclass that stores them negated)
        fl = None if _V.get("subclass") else impl_filter(region, evs, numpy.asarray(edges, dtype=float))
        if fl is not None and fl != mc:
            problems.append(f"magnitude_counts {mc} != events kept by the equivalent range filters {fl}")
    except Exception as ex:
        problems.append(f"filter raised {type(ex).__name__}: {ex}")
        fl = None
    for p in problems:
        run.oracle_failure(base, p)
    # model
    lons = ",".join(frac(ev[0]) for ev in evs) if evs else "-"
    lats = ",".join(frac(ev[1]) for ev in evs) if evs else "-"
    mags = ",".join(frac(ev[2]) for ev in evs) if evs else "-"
    ed = ",".join(frac(x) for x in edges)
    q3 = None
    if kind == "cart":
        q = drv.ask(" ".join(["c03_cart"] + cart_args + [lons, lats, mags, ed]))
    else:
        b = _qt_bounds(region)
        q = drv.ask(" ".join(["c03_quad"] + [",".join(frac(v) for v in b[:, c]) for c in range(4)] + [lons, lats, mags, ed]))
        keys = [str(k) for k in region.quadkeys]
        if len(evs) <= 120 and keys and all(keys) and max(map(len, keys)) <= 12:
            # the SAME arrays through C17's model of the grid (quadkeys, unit-square coordinates) instead of the bounds rows
            from . import c17
            D = max(map(len, keys))
            units = [c17.to_unit(ev[0], ev[1], D) for ev in evs]
            q3 = drv.ask(f"c03_quadkeys {','.join(keys)} {c17.pts_arg(units)} {mags} {ed}")
    q2 = drv.ask(f"c03_filter {ed} {mags}")
    pending.append((base, q, q2, got, fl, q3, alt))
    _V.clear()
    if helpers is not None:
        hdrv, hpend = helpers
        if kind == "cart":
            hp.check_cart_helpers(run, hdrv, hpend, base, region, poly_cells, cell_of, edges, evs, cart_args)
        else:
            hp.check_quad_idx(run, hdrv, hpend, base, region, cell_of, edges, evs)


def _parse(tok):
    name, v = tok.split(":", 1)
    if v == "E":
        return "E"
    if v == "-":
        return []
    if ";" in v or name == "smc":
        return [[int(t) for t in r.split(",")] if r != "-" else [] for r in v.split(";")]
    return [int(t) for t in v.split(",")]


def flush(run, drv, pending):
    out = drv.run()
    seqs = [p for p in pending if p[0] == "seq"]
    pending[:] = [p for p in pending if p[0] != "seq"]
    for _, case, qs, results in seqs:
        models = {}
        for k, q in qs.items():
            toks = out[q].split(" ")
            models[k] = dict(zip(("sc", "sep", "mc", "smc"), (_parse(t) for t in toks))) if len(toks) == 4 else None
        for step, (op, k, got) in enumerate(results):
            if op not in ("sc", "sep", "mc", "smc"):
                continue
            m = models.get(k)
            if m is None or (m[op] != got and not (m[op] == [] and got == [])):
                run.mismatch(dict(case, failed_step=step, op=op), str(got)[:200], out[qs[k]][:400])
    for base, q, q2, got, fl, q3, alt in pending:
        toks = out[q].split(" ")
        if len(toks) != 4:
            run.mismatch(base, "impl", out[q][:200])
            continue
        if q3 is not None and out[q3] != out[q]:
            # the two models of one grid (bounds rows / quadkeys) must agree (theorem bounds_pipeline_is_key_pipeline); the
            # implementation is compared with the key route too
            k3 = out[q3].split(" ")
            if len(k3) != 4 or tuple(_parse(t) for t in k3) != tuple(got):
                run.mismatch(dict(base, op="c03_quadkeys"), [str(x)[:200] for x in got], out[q3][:800])
        model = tuple(_parse(t) for t in toks)
        g = list(got)
        for j in (0, 1):       # the model rejects (the code as it is); leaving the outside events uncounted was accepted by the oracle
            if model[j] == "E" and g[j] == alt[j]:
                g[j] = "E"
        # an empty-region smc prints `-`; normalise shapes [] vs [[]..]
        if model != tuple(g):
            if not (model[3] == [] and g[3] == []):
                run.mismatch(base, [str(x)[:200] for x in g], out[q][:800])
        if fl is not None:
            mfl = [] if out[q2] == "-" else [int(t) for t in out[q2].split(",")]
            if mfl != fl:
                run.mismatch(dict(base, what="filter"), fl, out[q2][:300])
    pending.clear()
    drv.lines = []


def cart_args_of(region, cells, flags):
    return [",".join(frac(x) for x in region.xs), ",".join(frac(y) for y in region.ys),
            ",".join(str(i) for i, _ in cells), ",".join(str(j) for _, j in cells), ",".join(str(f) for f in flags)]


def one_random_case(run, drv, pending, rng, tier, spec_override=None, helpers=None):
    start, step, nb = gen_edges(rng)
    edges = edges_array(start, step, nb, rng.choice(["library", "explicit"]))
    mode = rng.choice(["bound", "list", "ndarray"])
    n = rng.choice([0, 1, 2, 3, 5, 10, 30, 100, 400 if tier == "thorough" else 200])
    frac_out = rng.choice([0.0, 0.0, 0.0, 0.02, 0.3])
    frac_below = rng.choice([0.0, 0.0, 0.0, 0.02, 0.3])
    if helpers is not None and not (n <= 100 and rng.random() < 0.3):
        helpers = None
    if rng.random() < 0.6:
        spec = c01._spec_cells_tuple(spec_override or c01.gen_lattice(rng, "quick"))
        region, cells, flags = c01.build_region(spec)
        region.magnitudes = edges if mode == "bound" else rng.choice([edges, numpy.array([1.0, 2.0]), None])
        orc = c01.Oracle(region, cells, flags)

        def cell_of(lon, lat):
            a = orc.at(orc.ax.exact(lon, Fraction(lon)), orc.ay.exact(lat, Fraction(lat)))
            return None if a == "o" else a
        locs = gen_events_cart(rng, region, orc, n, frac_out)
        # keep away from the round-off band: on an edge or well inside by construction; drop anything else
        locs = [p for p in locs if not (orc.ax.allowed(p[0])[2] or orc.ay.allowed(p[1])[2])]
        # the known finding D4 (single column / row open-ended) is C01's; keep events off that zone
        if orc.ax.n == 1:
            locs = [p for p in locs if Fraction(p[0]) < orc.ax.top]
        if orc.ay.n == 1:
            locs = [p for p in locs if Fraction(p[1]) < orc.ay.top]
        mags = gen_mags(rng, edges, len(locs), frac_below)
        evs = [(p[0], p[1], m) for p, m in zip(locs, mags)]
        case = dict(kind="cart", region=spec, edges=[repr(float(x)) for x in edges], mode=mode,
                    events=[[repr(a), repr(b), repr(c)] for a, b, c in evs], rid=hash(c01.region_key(spec)))
        vv = gen_variant(rng, True)
        if vv:
            case["variant"] = vv
        check_case(run, drv, pending, case, region, "cart", cell_of, len(cells), edges, evs, mode,
                   cart_args_of(region, cells, flags), helpers=helpers, poly_cells=cells)
    else:
        # bound magnitudes: the grid itself, another grid (explicit mag_bins must win), or none at all (D22)
        bound = edges if mode == "bound" else rng.choice([edges, numpy.array([1.0, 2.0]), None, None])
        region, name = quad_region(rng, bound)
        run.count("quad:magnitudes-unbound+explicit-bins" if bound is None else "quad:magnitudes-bound")
        locs = gen_events_quad(rng, region, n, frac_out)
        bev = getattr(region, "_c03_building_events", None)
        if bev and n and rng.random() < 0.6:     # the building catalog itself (its events own the leaves that counted them)
            inside = [p for p in bev if frac_out > 0 or quad_cell_of(_qt_bounds(region))(*p) is not None]
            locs = (inside + locs)[:max(n, 1)] if inside else locs
            rng.shuffle(locs)
        mags = gen_mags(rng, edges, len(locs), frac_below)
        evs = [(p[0], p[1], m) for p, m in zip(locs, mags)]
        keys = [str(k) for k in region.quadkeys]
        run.count("quad:grid-" + name.rstrip("0123456789"))
        case = dict(kind="quad", quadkeys=keys, edges=[repr(float(x)) for x in edges], mode=mode, unbound=bound is None,
                    events=[[repr(a), repr(b), repr(c)] for a, b, c in evs], rid=hash(tuple(keys)))
        vv = gen_variant(rng, False)
        if vv:
            case["variant"] = vv
        check_case(run, drv, pending, case, region, "quad", quad_cell_of(_qt_bounds(region)), len(keys), edges, evs, mode,
                   helpers=helpers)


def run_stored(run, drv, pending, case, helpers=None):
    edges = numpy.array([float(x) for x in case["edges"]])
    evs = [(float(a), float(b), float(c)) for a, b, c in case["events"]]
    mode = case.get("mode", "ndarray")
    if case["kind"] == "cart":
        spec = c01._spec_cells_tuple(case["region"])
        region, cells, flags = c01.build_region(spec)
        region.magnitudes = edges
        orc = c01.Oracle(region, cells, flags)

        def cell_of(lon, lat):
            a = orc.at(orc.ax.exact(lon, Fraction(lon)), orc.ay.exact(lat, Fraction(lat)))
            return None if a == "o" else a
        check_case(run, drv, pending, dict(case, rid=0), region, "cart", cell_of, len(cells), edges, evs, mode,
                   cart_args_of(region, cells, flags), helpers=helpers, poly_cells=cells)
    else:
        from csep.core.regions import QuadtreeGrid2D
        region = QuadtreeGrid2D.from_quadkeys(list(case["quadkeys"]), magnitudes=None if case.get("unbound") else edges)
        check_case(run, drv, pending, dict(case, rid=0), region, "quad", quad_cell_of(_qt_bounds(region)),
                   len(case["quadkeys"]), edges, evs, mode, helpers=helpers)


# ----------------------------------------------------------------------------------------------- call sequences
SEQ_OPS = ["smc", "mc", "midx", "sc", "sep", "df"]


def gen_seq_case(rng, tier):
    """a short SEQUENCE of gridding calls on ONE catalog object bound to ONE region object: explicit bins A, region-bound,
    explicit bins B, region-bound again ... — what a region-bound call grids against must not depend on earlier calls"""
    grids = []
    while len(grids) < 3:
        start, step, nb = gen_edges(rng)
        e = [float(x) for x in edges_array(start, step, nb, rng.choice(["library", "explicit"]))]
        if e not in grids:
            grids.append(e)
    n = rng.choice([1, 2, 3, 5, 10, 30, 60])
    frac_out = rng.choice([0.0, 0.0, 0.0, 0.1])
    frac_below = rng.choice([0.0, 0.0, 0.1])
    if rng.random() < 0.6:
        spec = c01._spec_cells_tuple(c01.gen_lattice(rng, "quick"))
        region, cells, flags = c01.build_region(spec)
        orc = c01.Oracle(region, cells, flags)
        locs = gen_events_cart(rng, region, orc, n, frac_out)
        locs = [p for p in locs if not (orc.ax.allowed(p[0])[2] or orc.ay.allowed(p[1])[2])]
        if orc.ax.n == 1:
            locs = [p for p in locs if Fraction(p[0]) < orc.ax.top]
        if orc.ay.n == 1:
            locs = [p for p in locs if Fraction(p[1]) < orc.ay.top]
        where = dict(kind="seq", rkind="cart", region=spec)
    else:
        region, _ = quad_region(rng, None)
        locs = gen_events_quad(rng, region, n, frac_out)
        where = dict(kind="seq", rkind="quad", quadkeys=[str(k) for k in region.quadkeys])
    # magnitudes on / between the edges of a randomly chosen grid, so that the three grids bin them differently
    alledges = sorted(set(x for e in grids for x in e))

    def clear(m):      # on an edge, or far from every edge of every grid: no grid has it in its round-off band
        return all(m == x or abs(m - x) > 1e-6 for x in alledges)
    mags = []
    for _ in locs:
        m = gen_mags(rng, rng.choice(grids), 1, frac_below)[0]
        for _try in range(20):
            if clear(m):
                break
            m = gen_mags(rng, rng.choice(grids), 1, frac_below)[0]
        else:
            m = float(max(alledges) + 1.0)
        mags.append(m)
    ops = []
    for _ in range(rng.randint(3, 8)):
        op = rng.choice(["smc", "smc", "smc", "mc", "mc", "midx", "sc", "sep", "df"])
        g = rng.choice([None, None, 1, 2, 0]) if op in ("smc", "mc") else None    # None = region-bound, k = explicit grids[k]
        ops.append([op, g, rng.choice(["list", "ndarray"])])
    ops.append([rng.choice(["smc", "mc", "midx"]), None, "list"])                  # always end with a region-bound call
    return dict(where, grids=[[repr(x) for x in e] for e in grids], ops=ops,
                events=[[repr(p[0]), repr(p[1]), repr(m)] for p, m in zip(locs, mags)])


@_guarded
def seq_case(run, drv, pending, case):
    grids = [[float(x) for x in e] for e in case["grids"]]
    evs = [(float(a), float(b), float(c)) for a, b, c in case["events"]]
    n = len(evs)
    if case["rkind"] == "cart":
        spec = c01._spec_cells_tuple(case["region"])
        region, cells, flags = c01.build_region(spec)
        orc = c01.Oracle(region, cells, flags)

        def cell_of(lon, lat):
            a = orc.at(orc.ax.exact(lon, Fraction(lon)), orc.ay.exact(lat, Fraction(lat)))
            return None if a == "o" else a
        ncell, cart = len(cells), True
        rargs = cart_args_of(region, cells, flags)
    else:
        from csep.core.regions import QuadtreeGrid2D
        region = QuadtreeGrid2D.from_quadkeys(list(case["quadkeys"]))
        cell_of = quad_cell_of(_qt_bounds(region))
        ncell, cart = len(case["quadkeys"]), False
        b = _qt_bounds(region)
        rargs = [",".join(frac(v) for v in b[:, c]) for c in range(4)]
    region.magnitudes = numpy.array(grids[0])          # the grid the region is built with
    cat = _cat(region, evs)                            # ONE catalog object, ONE region object for the whole sequence
    exp = {k: recount(ncell, cell_of, grids[k], evs, cart) for k in range(3)}
    cells_ev = exp[0][4]
    anyout = any(c is None for c in cells_ev)
    run.case(case if run.evaluations < 4 else None, ("seq", json.dumps(case, sort_keys=True, default=str)))
    run.count("sequence")
    results = []
    skip_model = False
    for step, (op, g, how) in enumerate(case["ops"]):
        k = 0 if g is None else g
        kw = {} if g is None else dict(mag_bins=list(grids[g]) if how == "list" else numpy.array(grids[g]))
        e_sc, e_sep, e_mc, e_smc, _, bins = exp[k]
        if op == "smc":
            got, want = _call(lambda: cat.spatial_magnitude_counts(**kw)), e_smc
        elif op == "mc":
            got, want = _call(lambda: cat.magnitude_counts(**kw)), e_mc
        elif op == "midx":
            got, want = _call(lambda: cat.get_mag_idx()), [-1 if x is None else x for x in exp[0][5]]
        elif op == "sc":
            got, want = _call(lambda: cat.spatial_counts()), e_sc
        elif op == "sep":
            got, want = _call(lambda: cat.spatial_event_probability()), e_sep
        else:
            def cols():
                df = cat.to_dataframe()
                return numpy.column_stack((df['region_id'].to_numpy(), df['mag_id'].to_numpy())) if n else numpy.zeros((0, 2))
            got = _call(cols)
            want = "E" if (anyout and n > 0) else [[c, -1 if x is None else x] for c, x in zip(cells_ev, exp[0][5])]
            if not cart and n == 0 and got == "E":
                got = want         # incidental: the quadtree lookup of the current code raises on an EMPTY array; the empty frame
                                   # (what the property's statement gives for no events) and that quirk are both accepted
            if want == "E" and isinstance(got, list) and len(got) == n:
                # an event in no cell: the frame is rejected, or that event carries no cell index while all other ids are right
                nc_ = int(region.num_nodes)
                if all((r_[0] == c) if c is not None else not (0 <= r_[0] < nc_) for r_, c in zip(got, cells_ev)) and \
                        [r_[1] for r_ in got] == [-1 if x is None else x for x in exp[0][5]]:
                    run.count("sequence:df:no-cell-index-for-unlocated-events")
                    got = want
        run.count(f"sequence:{op}:{'bound' if g is None else 'explicit'}")
        if op in ("sc", "sep") and want == "E" and got != "E":
            # Cartesian region, an event outside: rejected by the current lookup; leaving it uncounted is admissible as well
            a_sc = [0] * int(region.num_nodes)
            for c in cells_ev:
                if c is not None:
                    a_sc[c] += 1
            if got == (a_sc if op == "sc" else [1 if v > 0 else 0 for v in a_sc]):
                run.count("sequence:outside-event-left-uncounted(model not compared)")
                skip_model = True
                continue
        results.append((op, k, got))
        if got != want:
            prev = [f"{o}({'bound' if gg is None else 'grid ' + str(gg)})" for o, gg, _ in case["ops"][:step]]
            run.oracle_failure(dict(case, failed_step=step),
                               f"step {step} {op}({'region-bound' if g is None else 'explicit grid ' + str(g)}) after {prev} = "
                               f"{str(got)[:160]}, exact recount with the {'bound' if g is None else 'given'} bins {str(want)[:160]}")
    if not numpy.array_equal(numpy.asarray(region.magnitudes, dtype=float), numpy.array(grids[0])):
        run.oracle_failure(case, "the magnitude bins bound to the region object were changed by the call sequence")
    # model: the same arrays for every grid used
    lons = ",".join(frac(ev[0]) for ev in evs) if evs else "-"
    lats = ",".join(frac(ev[1]) for ev in evs) if evs else "-"
    mags = ",".join(frac(ev[2]) for ev in evs) if evs else "-"
    qs = {}
    if skip_model or not results:
        return
    for k in sorted(set(k for _, k, _ in results)):
        ed = ",".join(frac(x) for x in grids[k])
        qs[k] = drv.ask(" ".join(["c03_cart" if cart else "c03_quad"] + rargs + [lons, lats, mags, ed]))
    pending.append(("seq", case, qs, results))


@_guarded
def band_case(run, case):
    """Magnitudes a few ulps BELOW a bin edge lie inside the documented round-off band: either adjacent bin is allowed,
    so nothing is compared with the exact recount or the model here — but every view of the SAME catalog must make the
    same choice: total = number of events, sum over space = magnitude_counts, sum over magnitude = spatial_counts."""
    from csep.core.regions import CartesianGrid2D
    edges = numpy.array([float(x) for x in case["edges"]])
    origins = numpy.array([[float(a), float(b)] for a, b in case["origins"]])
    dh = float(case["dh"])
    evs = [(float(a), float(b), float(c)) for a, b, c in case["events"]]
    n = len(evs)
    run.case(case if run.evaluations < 4 else None, ("band", tuple(case["edges"]), tuple(map(tuple, case["events"]))))
    run.count("band-consistency")
    for bound in (True, False):
        region = CartesianGrid2D.from_origins(origins, dh=dh, magnitudes=edges if bound else None)
        kw = {} if bound else dict(mag_bins=edges)
        mc = _call(lambda: _cat(region, evs).magnitude_counts(**kw))
        smc = _call(lambda: _cat(region, evs).spatial_magnitude_counts(**kw))
        sc = _call(lambda: _cat(region, evs).spatial_counts())
        if smc == "E" or not isinstance(smc, list):
            run.count("band-consistency:rejected")     # a magnitude in the band below the FIRST edge may be rejected
            if mc != "E" and isinstance(mc, list) and sum(mc) > n:
                run.oracle_failure(case, f"magnitude_counts counts {sum(mc)} events in a catalog of {n}")
            continue
        if sum(map(sum, smc)) != n:
            run.oracle_failure(case, f"total of the space-magnitude array {sum(map(sum, smc))} != number of events {n} "
                                     f"(magnitudes in the round-off band below an edge)")
        if mc == "E" or [sum(r[k] for r in smc) for k in range(len(edges))] != mc:
            run.oracle_failure(case, f"sum over space {[sum(r[k] for r in smc) for k in range(len(edges))]} != "
                                     f"magnitude_counts {mc} for magnitudes in the round-off band below an edge")
        if sc == "E" or [sum(r) for r in smc] != sc:
            run.oracle_failure(case, "sum over magnitude != spatial_counts (magnitudes in the round-off band)")


def gen_band_case(rng):
    start = rng.choice([2.5, 3.95, 4.0, 5.95, 0.05, 6.25])
    step = rng.choice([0.1, 0.05, 0.25, 0.5])
    nb = rng.randint(2, 12)
    edges = [float(x) for x in edges_array(Fraction(repr(start)), Fraction(repr(step)), nb, "plain")]
    nx, ny = rng.randint(2, 4), rng.randint(2, 4)
    ax, ay, dh = rng.choice([-120.0, 0.0, 10.5]), rng.choice([30.0, -5.0, 0.25]), rng.choice([0.1, 0.5, 1.0])
    origins = [[ax + i * dh, ay + j * dh] for i in range(nx) for j in range(ny)]
    evs = []
    for _ in range(rng.randint(1, 30)):
        o = rng.choice(origins)
        j = rng.randrange(len(edges))
        m = edges[j]
        for _ in range(rng.choice([0, 1, 1, 2, 3])):
            m = math.nextafter(m, -math.inf)
        evs.append([repr(o[0] + dh / 2), repr(o[1] + dh / 2), repr(m)])
    return dict(kind="band", edges=[repr(e) for e in edges], origins=[[repr(a), repr(b)] for a, b in origins], dh=repr(dh),
                events=evs)


def run(run, rng, tier):
    import time
    drv, pending = Driver(), []
    hdrv, hpend = Driver(), []
    t0 = [time.time()]
    sect = run.extra.setdefault("section_s", {})

    def lap(name):
        sect[name] = round(time.time() - t0[0], 1)
        t0[0] = time.time()
    run.extra["excluded_input_classes"] = [w["id"] + ": " + w["where"] + " — " + w["why"] for w in hp.EXCLUDED_INPUT_CLASSES]
    for k in range(60 if tier == "quick" else 1000):
        band_case(run, gen_band_case(rng))
    for path in sorted(glob.glob(os.path.join(VERIF, "corpus", "C03", "*.json"))):
        c = json.load(open(path))
        if c.get("kind") == "seq":
            seq_case(run, drv, pending, c)
        elif c.get("kind") in ("stateseq", "expected", "big"):
            from . import c03_seq
            c03_seq.replay(run, c, Driver)
        elif c.get("kind") in ("float", "wide", "size"):
            from . import c03_float
            c03_float.replay(run, c, Driver)
        elif c.get("kind") in hp.KINDS:
            (hp.check_qthelper if c["kind"] == "qthelper" else hp.check_cartview)(run, hdrv, hpend, c)
        else:
            run_stored(run, drv, pending, c, helpers=(hdrv, hpend))
        run.count("corpus")
    lap("band+corpus")
    # helper code paths: quadtree helpers (boundary-directed), bounding-box views
    hrng = random.Random(rng.randrange(2 ** 62))
    for k in range(900 if tier == "quick" else 8000):
        hp.check_qthelper(run, hdrv, hpend, hp.gen_qthelper(hrng, tier))
        if len(hpend) >= 80:
            hp.flush(run, hdrv, hpend)
    for k in range(120 if tier == "quick" else 1200):
        hp.check_cartview(run, hdrv, hpend, hp.gen_cartview(hrng, tier))
        if len(hpend) >= 80:
            hp.flush(run, hdrv, hpend)
    hp.flush(run, hdrv, hpend)
    lap("helpers")
    # region states (bins / None / attribute missing / no region), retbins, error branches; get_expected_rates accumulation
    from . import c03_seq
    c03_seq.run_all(run, random.Random(rng.randrange(2 ** 62)), tier, Driver)
    lap("sessions+expected+big")
    # every float64 magnitude / coordinate, the round-off band included, any tol=: the float-faithful pipelines
    from . import c03_float
    c03_float.run_all(run, random.Random(rng.randrange(2 ** 62)), tier, Driver)
    lap("float")
    srng = random.Random(rng.randrange(2 ** 62))
    for k in range(350 if tier == "quick" else 5000):
        seq_case(run, drv, pending, gen_seq_case(srng, tier))
        if len(pending) >= 60:
            flush(run, drv, pending)
    flush(run, drv, pending)
    lap("sequences")
    ncase = 2600 if tier == "quick" else 24000
    for k in range(ncase):
        one_random_case(run, drv, pending, rng, tier, helpers=(hdrv, hpend))
        if len(pending) >= 60:
            flush(run, drv, pending)
            hp.flush(run, hdrv, hpend)
    flush(run, drv, pending)
    hp.flush(run, hdrv, hpend)
    lap("random-cases")
    run.extra["rejection_exception_classes"] = dict(REJECTION_CLASSES)
    run.extra["copy_forms_unsupported_by_the_tree"] = {f"{k[0]}:{k[1]}": v for k, v in COPY_UNSUPPORTED.items()}


def replay(run, payload):
    if payload["case"].get("kind") == "band":
        band_case(run, payload["case"])
        return
    if payload["case"].get("kind") in hp.KINDS:
        hp.replay(run, payload["case"])
        return
    if payload["case"].get("kind") in ("stateseq", "expected", "big"):
        from . import c03_seq
        c03_seq.replay(run, payload["case"], Driver)
        return
    if payload["case"].get("kind") in ("float", "wide", "size"):
        from . import c03_float
        c03_float.replay(run, payload["case"], Driver)
        return
    if payload["case"].get("kind") == "seq":
        drv, pending = Driver(), []
        seq_case(run, drv, pending, payload["case"])
        flush(run, drv, pending)
        return
    drv, pending = Driver(), []
    hdrv, hpend = Driver(), []
    run_stored(run, drv, pending, payload["case"], helpers=(hdrv, hpend))
    flush(run, drv, pending)
    hp.flush(run, hdrv, hpend)
