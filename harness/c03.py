"""C03 — gridding a catalog counts every event exactly once, in its own cell and bin.

Correspondence of CSEPCatalog.spatial_counts / spatial_event_probability / magnitude_counts / spatial_magnitude_counts
(Cartesian and quadtree regions) with Model/Gridding.lean, plus a direct exact recount (fractions / exact float compares)."""
import bisect
import glob
import json
import math
import os
from decimal import Decimal
from fractions import Fraction

import numpy

from .core import Driver, VERIF, frac
from . import c01

LEVEL_TEXT = ("Proof: for every list of events (any length, duplicates, any order) and every numbers of cells and bins, entry "
              "(i,k) of the modelled space-magnitude array is the number of events with cell i and bin k, its total is the "
              "number of events, its marginals are the spatial and magnitude counts, occupancy is 1 exactly where the count "
              "is positive, the count of bin k equals the length of the magnitude-range filter, outside / below-minimum events "
              "make space-magnitude gridding raise and are left uncounted by the magnitude histogram, and with a quadtree "
              "region the i-th location is paired with the i-th magnitude or the call is rejected (induction over the event "
              "list, kernel-checked). Tied to the code by a correspondence over random catalogs on Cartesian lattices and "
              "quadtree grids.")
LEVEL_NOTE = ("Events enter the model after the two lookups (cell, bin); the lookups themselves are the exact ones of C01 / C02 "
              "and the generated coordinates and magnitudes avoid the round-off band below an edge (they are on an edge or "
              "well inside), so both the recount and the model are unambiguous.")
DESIGN_REF = "DESIGN.md §4 C03"
TECHNIQUE = "Lean 4 proof (exact layer) + differential correspondence + exact direct recount"

THEOREMS = ["Gridding.smc_ok_iff", "Gridding.smc_entry", "Gridding.smc_entry_pipeline", "Gridding.smc_total", "Gridding.smc_sum_mag", "Gridding.smc_sum_space",
            "Gridding.occupancy_iff", "Gridding.magCount_eq_filter", "Gridding.smc_rejects_outside",
            "Gridding.smc_rejects_below_min", "Gridding.magCounts_ignores_below_min", "Gridding.quadtree_pairing",
            "Gridding.quadtree_counts", "Gridding.occupancy_entry", "Gridding.qtFind_eq_some_iff",
            "Gridding.qtFind_eq_none_iff"]
TRUSTED = ["Lean 4.33 kernel", "axioms: propext, Classical.choice, Quot.sound at most",
           "numpy.add.at(out, idx, 1) adds one per occurrence; out[idx] = 1 sets (modelled as folds over the index list)",
           "region and magnitude lookups are the exact ones away from the round-off band (properties C01 / C02 / C17)",
           "harness/c03.py generators, exact recount and comparison; driver parsing (Proto.lean)"]
RULE = ("catalogs of 0..400 events (duplicates, events on cell corners / edges and on magnitude edges, controlled fraction "
        "outside the region / in holes / below the minimum magnitude, shuffled) on Cartesian lattices (holes, masks, 1xn, "
        "single cell) and quadtree grids (single resolution zoom 1-3, random multi-resolution quadkey sets with gaps); "
        "magnitude grids regular with 1..30 edges, explicit mag_bins (list / ndarray) and region-bound; a case is one "
        "(region, magnitude grid, catalog); non-trivial when the catalog has a duplicate, an edge event, an outside or a "
        "below-minimum event; distinct by (region, edges, event list)")


# ----------------------------------------------------------------------------------------------- generators
def gen_edges(rng):
    start = Decimal(rng.choice(["2.5", "3.95", "4.0", "5.95", "0", "-1.0", "4.95", "0.05", "6"]))
    step = Decimal(rng.choice(["0.1", "0.1", "0.2", "0.5", "1", "0.25", "0.05"]))
    n = rng.choice([1, 2, 3, 5, 8, 13, 21, 30])
    return start, step, n


def edges_array(start, step, n, how):
    from csep.core.regions import magnitude_bins
    if how == "library" and n >= 2:
        e = magnitude_bins(float(start), float(start + (n - 1) * step), float(step))
        if len(e) == n:
            return numpy.asarray(e)
    return numpy.array([float(start + k * step) for k in range(n)])


def gen_mags(rng, edges, n, frac_below):
    e = [float(x) for x in edges]
    h = (e[1] - e[0]) if len(e) > 1 else 0.5
    out = []
    for _ in range(n):
        k = rng.random()
        if k < frac_below:
            out.append(rng.choice([e[0] - h / 2, e[0] - 3 * h, math.nextafter(e[0], -math.inf) - 1e-3 * h]))
        elif k < frac_below + 0.35:
            out.append(rng.choice(e))  # exactly on an edge: belongs to the bin the edge opens
        elif k < frac_below + 0.45:
            out.append(e[-1] + rng.choice([h / 2, h, 7.5 * h, 100.0]))  # open top bin
        else:
            j = rng.randrange(len(e))
            out.append(e[j] + h * rng.choice([0.25, 0.5, 0.625]))
    return out


def quad_region(rng, mags):
    from csep.core.regions import QuadtreeGrid2D
    k = rng.random()
    if k < 0.35:
        zoom = rng.choice([1, 2, 2, 3])
        return QuadtreeGrid2D.from_single_resolution(zoom, magnitudes=mags), f"single{zoom}"
    # random multi-resolution set of disjoint tiles with gaps
    keys = []

    def split(q, depth):
        if depth >= 4 or rng.random() < 0.35:
            if rng.random() < 0.8:
                keys.append(q)
            return
        for c in "0123":
            split(q + c, depth + 1)

    for q in "0123":
        split(q, 1)
    if not keys:
        keys = ["0", "3"]
    if rng.random() < 0.5:
        rng.shuffle(keys)
    keys = keys[:120]
    return QuadtreeGrid2D.from_quadkeys(keys, magnitudes=mags), f"quadkeys{len(keys)}"


def gen_events_cart(rng, region, orc, n, frac_out):
    xs = orc.ax.e + [float(orc.ax.top)]
    ys = orc.ay.e + [float(orc.ay.top)]
    act = sorted(orc.active)
    holes = [(i, j) for i in range(orc.ax.n) for j in range(orc.ay.n) if (i, j) not in orc.active]
    hx, hy = xs[1] - xs[0], ys[1] - ys[0]
    pool = []

    def inside(i, j):
        fx, fy = rng.choice([0.0, 0.0, 0.25, 0.5, 0.75]), rng.choice([0.0, 0.0, 0.25, 0.5, 0.75])
        return (xs[i] if fx == 0 else xs[i] + fx * (xs[i + 1] - xs[i]), ys[j] if fy == 0 else ys[j] + fy * (ys[j + 1] - ys[j]))

    for _ in range(max(1, n // 3)):
        if rng.random() < frac_out or not act:
            k = rng.random()
            if holes and k < 0.4:
                pool.append(inside(*rng.choice(holes)))
            elif k < 0.6 and orc.ax.n >= 2:
                pool.append((xs[-1] + rng.choice([0.0, hx / 2, 5 * hx]), ys[0] + hy / 4))  # on / beyond the east side
            elif k < 0.8 and orc.ay.n >= 2:
                pool.append((xs[0] + hx / 4, ys[-1] + rng.choice([0.0, hy / 2])))  # on / beyond the north side
            else:
                pool.append((xs[0] - rng.choice([hx / 2, 3 * hx]), ys[0] - rng.choice([hy / 2, 0.0])))  # west / south
        else:
            pool.append(inside(*rng.choice(act)))
    return [rng.choice(pool) for _ in range(n)]


def gen_events_quad(rng, region, n, frac_out):
    b = numpy.asarray(region.bounds, dtype=float)
    pool = []
    for _ in range(max(1, n // 3)):
        t = b[rng.randrange(len(b))]
        k = rng.random()
        if k < frac_out:
            pool.append(rng.choice([(t[2], t[1]), (t[0], t[3]), (rng.uniform(-179, 179), rng.choice([86.0, -86.5])),
                                    (rng.uniform(-179, 179), rng.uniform(-80, 80))]))  # may or may not be covered
        else:
            fx, fy = rng.choice([0.0, 0.0, 0.25, 0.5]), rng.choice([0.0, 0.0, 0.25, 0.5])
            pool.append((t[0] + fx * (t[2] - t[0]), t[1] + fy * (t[3] - t[1])))
    return [(float(p[0]), float(p[1])) for p in (rng.choice(pool) for _ in range(n))]


# ----------------------------------------------------------------------------------------------- implementation
def _cat(region, evs):
    from csep.core.catalogs import CSEPCatalog
    data = [(str(k), 1000 * k, float(lat), float(lon), 10.0, float(m)) for k, (lon, lat, m) in enumerate(evs)]
    return CSEPCatalog(data=data, region=region)


def _ints(a):
    a = numpy.asarray(a)
    if a.size and not numpy.all(a == numpy.round(a)):
        return "non-integer"
    return a.astype(numpy.int64).tolist()


def _call(f):
    try:
        return _ints(f())
    except ValueError:
        return "E"
    except Exception as e:  # any other exception class is not what the property promises
        return "EXC:" + type(e).__name__


def impl(region, evs, mag_bins):
    """the four arrays, each from a fresh catalog; `mag_bins` None = use the bins bound to the region"""
    kw = {} if mag_bins is None else dict(mag_bins=mag_bins)
    sc = _call(lambda: _cat(region, evs).spatial_counts())
    sep = _call(lambda: _cat(region, evs).spatial_event_probability())
    mc = _call(lambda: _cat(region, evs).magnitude_counts(**kw))
    smc = _call(lambda: _cat(region, evs).spatial_magnitude_counts(**kw))
    return sc, sep, mc, smc


def impl_filter(region, evs, edges):
    """events kept by the equivalent magnitude-range filter of every bin"""
    out = []
    for k in range(len(edges)):
        st = [f"magnitude >= {edges[k]}"] + ([f"magnitude < {edges[k + 1]}"] if k + 1 < len(edges) else [])
        c = _cat(region, evs)
        if len(evs) == 0:
            out.append(0)
            continue
        out.append(int(c.filter(st, in_place=False).event_count))
    return out


# ----------------------------------------------------------------------------------------------- recount (oracle)
def recount(ncell, cell_of, edges, evs, cartesian):
    """exact recount from scratch; returns expected (sc, sep, mc, smc)"""
    e = [float(x) for x in edges]
    cells = [cell_of(lon, lat) for lon, lat, _ in evs]
    bins = []
    for _, _, m in evs:
        k = bisect.bisect_right(e, m) - 1  # float vs float comparisons are exact
        bins.append(k if k >= 0 else None)
    anyout = any(c is None for c in cells)
    sc = [0] * ncell
    for c in cells:
        if c is not None:
            sc[c] += 1
    sep = [1 if v > 0 else 0 for v in sc]
    mc = [0] * len(e)
    for b in bins:
        if b is not None:
            mc[b] += 1
    if cartesian and anyout and evs:
        sc = sep = "E"
    if evs and (anyout or any(b is None for b in bins)):
        smc = "E"
    else:
        smc = [[0] * len(e) for _ in range(ncell)]
        for c, b in zip(cells, bins):
            smc[c][b] += 1
    return sc, sep, mc, smc, cells, bins


def quad_cell_of(bounds):
    b = [tuple(float(v) for v in r) for r in bounds]

    def f(lon, lat):
        for k, (x0, y0, x1, y1) in enumerate(b):
            if x0 <= lon < x1 and y0 <= lat < y1:  # all operands are binary64: the comparisons are exact
                return k
        return None
    return f


# ----------------------------------------------------------------------------------------------- one case
def check_case(run, drv, pending, case, region, kind, cell_of, ncell, edges, evs, mode, cart_args=None):
    mag_bins = None if mode == "bound" else (list(map(float, edges)) if mode == "list" else numpy.asarray(edges, dtype=float))
    base = dict(case)
    try:
        got = impl(region, evs, mag_bins)
    except Exception as ex:
        run.oracle_failure(base, f"gridding raised {type(ex).__name__}: {ex}")
        return
    sc, sep, mc, smc = got
    e_sc, e_sep, e_mc, e_smc, cells, bins = recount(ncell, cell_of, edges, evs, kind == "cart")
    n = len(evs)
    nontriv = (len(set(evs)) < n) or any(c is None for c in cells) or any(b is None for b in bins) or \
        any(float(m) in set(map(float, edges)) for _, _, m in evs)
    run.case(base if run.evaluations < 4 else None,
             (case["rid"], tuple(map(float, edges)), tuple(evs)) if nontriv else None)
    run.count(f"{kind}:{'E' if smc == 'E' else 'ok'}:{'empty' if n == 0 else 'n>0'}")
    if any(c is None for c in cells):
        run.count("has-outside-event")
    if any(b is None for b in bins):
        run.count("has-below-min-event")
    problems = []
    if sc != e_sc:
        problems.append(f"spatial_counts {str(sc)[:150]} expected {str(e_sc)[:150]}")
    if sep != e_sep:
        problems.append(f"spatial_event_probability {str(sep)[:150]} expected {str(e_sep)[:150]}")
    if mc != e_mc:
        problems.append(f"magnitude_counts {str(mc)[:150]} expected {str(e_mc)[:150]}")
    if smc != e_smc:
        problems.append(f"spatial_magnitude_counts {str(smc)[:200]} expected {str(e_smc)[:200]}")
    # identities on the implementation's own output
    if smc != "E" and isinstance(smc, list):
        if sum(map(sum, smc)) != n:
            problems.append(f"total of the space-magnitude array {sum(map(sum, smc))} != number of events {n}")
        if sc != "E" and [sum(r) for r in smc] != sc:
            problems.append("sum over magnitude != spatial_counts")
        if [sum(r[k] for r in smc) for k in range(len(edges))] != mc:
            problems.append("sum over space != magnitude_counts")
    if sc != "E" and sep != "E" and isinstance(sc, list) and isinstance(sep, list):
        if [1 if v > 0 else 0 for v in sc] != sep:
            problems.append("occupancy map is not 1 exactly where the spatial count is positive")
    try:
        fl = impl_filter(region, evs, numpy.asarray(edges, dtype=float))
        if fl != mc:
            problems.append(f"magnitude_counts {mc} != events kept by the equivalent range filters {fl}")
    except Exception as ex:
        problems.append(f"filter raised {type(ex).__name__}: {ex}")
        fl = None
    for p in problems:
        run.oracle_failure(base, p)
    # model
    lons = ",".join(frac(ev[0]) for ev in evs) if evs else "-"
    lats = ",".join(frac(ev[1]) for ev in evs) if evs else "-"
    mags = ",".join(frac(ev[2]) for ev in evs) if evs else "-"
    ed = ",".join(frac(x) for x in edges)
    if kind == "cart":
        q = drv.ask(" ".join(["c03_cart"] + cart_args + [lons, lats, mags, ed]))
    else:
        b = numpy.asarray(region.bounds, dtype=float)
        q = drv.ask(" ".join(["c03_quad"] + [",".join(frac(v) for v in b[:, c]) for c in range(4)] + [lons, lats, mags, ed]))
    q2 = drv.ask(f"c03_filter {ed} {mags}")
    pending.append((base, q, q2, got, fl))


def _parse(tok):
    name, v = tok.split(":", 1)
    if v == "E":
        return "E"
    if v == "-":
        return []
    if ";" in v or name == "smc":
        return [[int(t) for t in r.split(",")] if r != "-" else [] for r in v.split(";")]
    return [int(t) for t in v.split(",")]


def flush(run, drv, pending):
    out = drv.run()
    for base, q, q2, got, fl in pending:
        toks = out[q].split(" ")
        if len(toks) != 4:
            run.mismatch(base, "impl", out[q][:200])
            continue
        model = tuple(_parse(t) for t in toks)
        g = list(got)
        # an empty-region smc prints `-`; normalise shapes [] vs [[]..]
        if model != tuple(g):
            if not (model[3] == [] and g[3] == []):
                run.mismatch(base, [str(x)[:200] for x in g], out[q][:800])
        if fl is not None:
            mfl = [] if out[q2] == "-" else [int(t) for t in out[q2].split(",")]
            if mfl != fl:
                run.mismatch(dict(base, what="filter"), fl, out[q2][:300])
    pending.clear()
    drv.lines = []


def cart_args_of(region, cells, flags):
    return [",".join(frac(x) for x in region.xs), ",".join(frac(y) for y in region.ys),
            ",".join(str(i) for i, _ in cells), ",".join(str(j) for _, j in cells), ",".join(str(f) for f in flags)]


def one_random_case(run, drv, pending, rng, tier, spec_override=None):
    start, step, nb = gen_edges(rng)
    edges = edges_array(start, step, nb, rng.choice(["library", "explicit"]))
    mode = rng.choice(["bound", "list", "ndarray"])
    n = rng.choice([0, 1, 2, 3, 5, 10, 30, 100, 400 if tier == "thorough" else 200])
    frac_out = rng.choice([0.0, 0.0, 0.0, 0.02, 0.3])
    frac_below = rng.choice([0.0, 0.0, 0.0, 0.02, 0.3])
    if rng.random() < 0.6:
        spec = c01._spec_cells_tuple(spec_override or c01.gen_lattice(rng, "quick"))
        region, cells, flags = c01.build_region(spec)
        region.magnitudes = edges if mode == "bound" else rng.choice([edges, numpy.array([1.0, 2.0]), None])
        orc = c01.Oracle(region, cells, flags)

        def cell_of(lon, lat):
            a = orc.at(orc.ax.exact(lon, Fraction(lon)), orc.ay.exact(lat, Fraction(lat)))
            return None if a == "o" else a
        locs = gen_events_cart(rng, region, orc, n, frac_out)
        # keep away from the round-off band: on an edge or well inside by construction; drop anything else
        locs = [p for p in locs if not (orc.ax.allowed(p[0])[2] or orc.ay.allowed(p[1])[2])]
        # the known finding D4 (single column / row open-ended) is C01's; keep events off that zone
        if orc.ax.n == 1:
            locs = [p for p in locs if Fraction(p[0]) < orc.ax.top]
        if orc.ay.n == 1:
            locs = [p for p in locs if Fraction(p[1]) < orc.ay.top]
        mags = gen_mags(rng, edges, len(locs), frac_below)
        evs = [(p[0], p[1], m) for p, m in zip(locs, mags)]
        case = dict(kind="cart", region=spec, edges=[repr(float(x)) for x in edges], mode=mode,
                    events=[[repr(a), repr(b), repr(c)] for a, b, c in evs], rid=hash(c01.region_key(spec)))
        check_case(run, drv, pending, case, region, "cart", cell_of, len(cells), edges, evs, mode,
                   cart_args_of(region, cells, flags))
    else:
        # bound magnitudes: the grid itself, another grid (explicit mag_bins must win), or none at all (D22)
        bound = edges if mode == "bound" else rng.choice([edges, numpy.array([1.0, 2.0]), None, None])
        region, name = quad_region(rng, bound)
        run.count("quad:magnitudes-unbound+explicit-bins" if bound is None else "quad:magnitudes-bound")
        locs = gen_events_quad(rng, region, n, frac_out)
        mags = gen_mags(rng, edges, len(locs), frac_below)
        evs = [(p[0], p[1], m) for p, m in zip(locs, mags)]
        keys = [str(k) for k in region.quadkeys]
        case = dict(kind="quad", quadkeys=keys, edges=[repr(float(x)) for x in edges], mode=mode, unbound=bound is None,
                    events=[[repr(a), repr(b), repr(c)] for a, b, c in evs], rid=hash(tuple(keys)))
        check_case(run, drv, pending, case, region, "quad", quad_cell_of(region.bounds), len(keys), edges, evs, mode)


def run_stored(run, drv, pending, case):
    edges = numpy.array([float(x) for x in case["edges"]])
    evs = [(float(a), float(b), float(c)) for a, b, c in case["events"]]
    mode = case.get("mode", "ndarray")
    if case["kind"] == "cart":
        spec = c01._spec_cells_tuple(case["region"])
        region, cells, flags = c01.build_region(spec)
        region.magnitudes = edges
        orc = c01.Oracle(region, cells, flags)

        def cell_of(lon, lat):
            a = orc.at(orc.ax.exact(lon, Fraction(lon)), orc.ay.exact(lat, Fraction(lat)))
            return None if a == "o" else a
        check_case(run, drv, pending, dict(case, rid=0), region, "cart", cell_of, len(cells), edges, evs, mode,
                   cart_args_of(region, cells, flags))
    else:
        from csep.core.regions import QuadtreeGrid2D
        region = QuadtreeGrid2D.from_quadkeys(list(case["quadkeys"]), magnitudes=None if case.get("unbound") else edges)
        check_case(run, drv, pending, dict(case, rid=0), region, "quad", quad_cell_of(region.bounds),
                   len(case["quadkeys"]), edges, evs, mode)


def band_case(run, case):
    """Magnitudes a few ulps BELOW a bin edge lie inside the documented round-off band: either adjacent bin is allowed,
    so nothing is compared with the exact recount or the model here — but every view of the SAME catalog must make the
    same choice: total = number of events, sum over space = magnitude_counts, sum over magnitude = spatial_counts."""
    from csep.core.regions import CartesianGrid2D
    edges = numpy.array([float(x) for x in case["edges"]])
    origins = numpy.array([[float(a), float(b)] for a, b in case["origins"]])
    dh = float(case["dh"])
    evs = [(float(a), float(b), float(c)) for a, b, c in case["events"]]
    n = len(evs)
    run.case(case if run.evaluations < 4 else None, ("band", tuple(case["edges"]), tuple(map(tuple, case["events"]))))
    run.count("band-consistency")
    for bound in (True, False):
        region = CartesianGrid2D.from_origins(origins, dh=dh, magnitudes=edges if bound else None)
        kw = {} if bound else dict(mag_bins=edges)
        mc = _call(lambda: _cat(region, evs).magnitude_counts(**kw))
        smc = _call(lambda: _cat(region, evs).spatial_magnitude_counts(**kw))
        sc = _call(lambda: _cat(region, evs).spatial_counts())
        if smc == "E" or not isinstance(smc, list):
            run.count("band-consistency:rejected")     # a magnitude in the band below the FIRST edge may be rejected
            if mc != "E" and isinstance(mc, list) and sum(mc) > n:
                run.oracle_failure(case, f"magnitude_counts counts {sum(mc)} events in a catalog of {n}")
            continue
        if sum(map(sum, smc)) != n:
            run.oracle_failure(case, f"total of the space-magnitude array {sum(map(sum, smc))} != number of events {n} "
                                     f"(magnitudes in the round-off band below an edge)")
        if mc == "E" or [sum(r[k] for r in smc) for k in range(len(edges))] != mc:
            run.oracle_failure(case, f"sum over space {[sum(r[k] for r in smc) for k in range(len(edges))]} != "
                                     f"magnitude_counts {mc} for magnitudes in the round-off band below an edge")
        if sc == "E" or [sum(r) for r in smc] != sc:
            run.oracle_failure(case, "sum over magnitude != spatial_counts (magnitudes in the round-off band)")


def gen_band_case(rng):
    start = rng.choice([2.5, 3.95, 4.0, 5.95, 0.05, 6.25])
    step = rng.choice([0.1, 0.05, 0.25, 0.5])
    nb = rng.randint(2, 12)
    edges = [float(x) for x in edges_array(Fraction(repr(start)), Fraction(repr(step)), nb, "plain")]
    nx, ny = rng.randint(2, 4), rng.randint(2, 4)
    ax, ay, dh = rng.choice([-120.0, 0.0, 10.5]), rng.choice([30.0, -5.0, 0.25]), rng.choice([0.1, 0.5, 1.0])
    origins = [[ax + i * dh, ay + j * dh] for i in range(nx) for j in range(ny)]
    evs = []
    for _ in range(rng.randint(1, 30)):
        o = rng.choice(origins)
        j = rng.randrange(len(edges))
        m = edges[j]
        for _ in range(rng.choice([0, 1, 1, 2, 3])):
            m = math.nextafter(m, -math.inf)
        evs.append([repr(o[0] + dh / 2), repr(o[1] + dh / 2), repr(m)])
    return dict(kind="band", edges=[repr(e) for e in edges], origins=[[repr(a), repr(b)] for a, b in origins], dh=repr(dh),
                events=evs)


def run(run, rng, tier):
    drv, pending = Driver(), []
    for k in range(150 if tier == "quick" else 1500):
        band_case(run, gen_band_case(rng))
    for path in sorted(glob.glob(os.path.join(VERIF, "corpus", "C03", "*.json"))):
        run_stored(run, drv, pending, json.load(open(path)))
        run.count("corpus")
    ncase = 4000 if tier == "quick" else 30000
    for k in range(ncase):
        one_random_case(run, drv, pending, rng, tier)
        if len(pending) >= 60:
            flush(run, drv, pending)
    flush(run, drv, pending)


def replay(run, payload):
    if payload["case"].get("kind") == "band":
        band_case(run, payload["case"])
        return
    drv, pending = Driver(), []
    run_stored(run, drv, pending, payload["case"])
    flush(run, drv, pending)
