"""C18, round 4 — the JSON TEXT layer (was: trusted).  Model: lean/PycsepVerif/Model/JsonText.lean (+ JsonFloat.lean),
theorems: Properties/C18_Text.lean, driver ops of Drive/C18c.lean (`c18_text_render`, `c18_text_parse`, `c18_text_floatok`).

One sub-case (replay = {"mode": "tree", "section": "text", "sub_seed": …}) takes one value tree and compares, at the granularity
of the property (a layout change of the writer — indent, separators, member order, ensure_ascii — is a harmless rewrite and must
stay green; `whitespace_irrelevant`, `decode_parse_render`):
  (A) the file the REAL `FileSystem.save` wrote is read by the MODEL's parser: the value must be what the real `FileSystem.load`
      returns for that file (canonical form of `c18_tree`: dict entries sorted);
  (B) the text the MODEL's writer produces is read by the REAL `json.loads`: the value must be what the real loader returns for
      the real file (so both texts denote the same tree); TypeError <-> `err`;
      whether the two texts are identical byte for byte is only counted (`text:bytes-identical` / `text:layout-differs`);
  (C) a strict prefix of a written container file (truncated file) must fail to load on both sides;
  (D) hand-made texts (other whitespace, escapes, surrogate pairs, number forms, duplicate members, malformed texts): the model's
      parser and the real loader must agree on the value or on failure;
  (E) every finite double met satisfies the computable hypothesis of the round-trip theorem (`floatOkB pyFloatText`).
ORACLE (property): a value made of safe kinds that was written must load back equal to its normal form (as section `value`).
Documented divergences of the model (never generated): lone surrogate escapes, integers beyond 4300 digits, > ~990 nesting levels.
"""
import json
import math
import os
import struct

import numpy

from . import c18_tree

DIRECTED_STR = ["", "a", '"', "\\", "\\\\\"", "\n\r\t\b\f", "\x00\x01\x1f", "\x7f", "\x80\xff", "é", "µ✓", "\u2028\u2029", "\ud7ff\ue000",
                "\uffff", "\U00010000", "\U0001F600 smile", "\U0010ffff", "/", "a/b", "\\u0041", "tab\there", "NaN", "nul\x00l",
                "Infinity", " lead", "trail ", "\x0b\x0c\x0e", "~}|{", "日本語", "\U0001F600\U0001F601"]
DIRECTED_FLOAT = [0.0, -0.0, 1e-5, 1e-4, 0.0001234, 1e15, 1e16, 9999999999999998.0, 1e17, 1e22, 1e23, 5e-324, 1.7976931348623157e308,
                  0.1, 123456789012345.6, 1.5, -2.25, 1 / 3, 2.0 ** 52, 2.0 ** 53, 2.0 ** 63, 2.2250738585072014e-308,
                  2.225073858507201e-308, 4.9e-320, 1e100, 1.0, 10.0, 100.0, 123456.0, 0.5, 0.001, 9.999999999999999e22,
                  8.41e21, 2.0 ** -1074 * 3, 1e-7, 123e-7, -1e-5, -1e16, 3.141592653589793, 2.718281828459045e-10,
                  math.nan, math.inf, -math.inf]
DIRECTED_INT = [0, 1, -1, 9, 10, -10, 99, 100, 2 ** 53 + 1, -10 ** 20, 2 ** 64, 10 ** 50, -(2 ** 200), 7]
DIRECTED_VALUES = [None, True, False, [], {}, [[]], {"a": {}}, [[], {}],
                   {"b": 1, "a": 2, "B": 3, "": 4, "aa": 5, "a\x00": 6, "é": 7, "\U0001F600": 8, "\uffff": 9},
                   {10: "ten", 9: "nine", -1: "m"}, {True: 1, 5: 2}, {False: 0, 1: 1, -1: 2}, {None: 1}, {"a": 1, 2: 3}, {(1, 2): 3},
                   (1, 2.5, "x"), numpy.float32(0.1), numpy.int64(-7), {"nested": {"z": [1, {"y": None, "x": [[], [1.5, -0.0]]}], "a": {}}}]

HAND = [
    ("ws-mix", b' \t\r\n{ "a"\t:\n[ 1 ,\r2 ]\n,"b" : { } , "c":[ ]}\r\n '),
    ("crlf", b'{\r\n    "a": 1,\r\n    "b": [\r\n        2\r\n    ]\r\n}'),
    ("compact", b'{"a":[1,2,{"b":null}],"c":"x"}'),
    ("uescape-upper", b'"\\u00E9\\u00e9\\uABCD\\uabcd"'), ("uescape-mixed", b'"\\u00Aa"'),
    ("surrogate-pair", b'"\\ud83d\\ude00"'), ("surrogate-pair-upper", b'"\\uD83D\\uDE00x"'),
    ("astral-raw", "\"\U0001F600 é\"".encode()), ("raw-del", b'"\x7f"'), ("slash-escape", b'"\\/ \\b\\f\\n\\r\\t\\"\\\\"'),
    ("1E5", b"1E5"), ("1e5", b"1e5"), ("-0", b"-0"), ("-0.0", b"-0.0"), ("-0e0", b"-0e0"), ("1.0e+2", b"1.0e+2"), ("1.0E-2", b"1.0E-2"),
    ("0.1", b"0.1"), ("1e400", b"1e400"), ("-1e400", b"-1e400"), ("1e-400", b"1e-400"), ("-1e-400", b"-1e-400"),
    ("17digits", b"0.10000000000000001"), ("long", b"3.14159265358979323846264338327950288"),
    ("halfway", b"9007199254740993"), ("halfway-f", b"9007199254740993.0"), ("halfway-f2", b"9007199254740993.0000000001"),
    ("subnormal-tie", b"2.4703282292062327e-324"), ("subnormal-tie-up", b"2.4703282292062328e-324"),
    ("maxedge", b"1.7976931348623158e308"), ("overedge", b"1.7976931348623159e308"),
    ("bigint", str(3 ** 400).encode()), ("negbigint", b"-" + str(7 ** 300).encode()),
    ("dup-keys", b'{"a": 1, "b": 2, "a": 3}'), ("dup-keys-nested", b'{"a": {"x": 1, "x": [2]}, "a": {"x": 3, "y": 4, "x": 5}}'),
    ("empty-key", b'{"": 0}'), ("nested-empties", b"[[], {}, [[]], [{}], {\"a\": {}}]"),
    ("NaN", b"NaN"), ("Infinity", b"[Infinity, -Infinity, NaN]"), ("true-false-null", b"[true,false,null]"),
    ("top-string", b'"x"'), ("top-ws-number", b"  12  "),
    ("empty", b""), ("only-ws", b"  \n"), ("garbage", b"garbage"), ("trailing", b"1 2"), ("trailing-comma-arr", b"[1,]"),
    ("trailing-comma-obj", b'{"a":1,}'), ("leading-zero", b"01"), ("dot-no-digit", b"1."), ("e-no-digit", b"1e"), ("e-sign-no-digit", b"1e+"),
    ("minus", b"-"), ("plus", b"+1"), ("dot-first", b".5"), ("-Inf", b"-Inf"), ("nan-lower", b"nan"), ("Nan", b"Nan"), ("infinity-lower", b"infinity"),
    ("single-quote", b"'a'"), ("unterminated", b'"abc'), ("raw-newline", b'"a\nb"'), ("raw-tab", b'"a\tb"'), ("raw-nul", b'"a\x00b"'),
    ("bad-escape", b'"\\x41"'), ("bad-escape-a", b'"\\a"'), ("short-u", b'"\\u12"'), ("nonhex-u", b'"\\u12g4"'), ("u-underscore", b'"\\u1_ff"'),
    ("u-plus", b'"\\u+1ff"'), ("u-0x", b'"\\u0x1f"'), ("u-space", b'"\\u 1ff"'), ("pair-second-bad", b'"\\ud83d\\uZZZZ"'), ("pair-second-short", b'"\\ud83d\\u12"'),
    ("backslash-end", b'"abc\\'), ("key-not-string", b"{1: 2}"), ("missing-colon", b'{"a" 1}'), ("missing-comma", b"[1 2]"),
    ("unclosed-arr", b"[1, 2"), ("unclosed-obj", b'{"a": 1'), ("obj-in-arr-unclosed", b'[{"a": 1]'), ("colon-only", b'{"a":}'), ("comma-first", b"[,1]"),
    ("bom", b"\xef\xbb\xbf1"), ("invalid-utf8", b'"\xff"'), ("truncated-utf8", b'"\xe2\x82"'), ("arabic-digits", "١٢".encode()), ("fullwidth-digit", "１".encode()),
    ("nbsp-ws", "\u00a0 1".encode()), ("vt-ws", b"\x0b1"), ("ff-ws", b"\x0c1"), ("True", b"True"), ("None", b"None"), ("nul", b"nul"), ("nulll", b"nulll"),
    ("true1", b"true1"), ("number-then-letter", b"1a"), ("two-minus", b"--1"), ("1.e5", b"1.e5"), ("1e5.5", b"1e5.5"), ("1.5.5", b"1.5.5"),
    ("0e", b"0e"), ("00", b"00"), ("0x10", b"0x10"), ("-01", b"-01"), ("1_000", b"1_000"), ("deep", b"[" * 50 + b"]" * 50), ("deep-unbalanced", b"[" * 50 + b"]" * 49),
    ("comment", b"[1] // x"), ("pair-then-more", b'"\\ud83d\\ude00\\ud83d\\ude01"'),
]


class _Ident:
    @classmethod
    def from_dict(cls, adict):
        return adict


def _bits(x):
    return struct.unpack("<Q", struct.pack("<d", float(x)))[0]


def _fbits(b):
    return struct.unpack("<d", struct.pack("<Q", b))[0]


def gen_scalar(rng):
    k = rng.random()
    if k < 0.3:
        return rng.choice(DIRECTED_STR)
    if k < 0.55:
        return rng.choice(DIRECTED_FLOAT)
    if k < 0.65:
        return rng.choice(DIRECTED_INT)
    if k < 0.72:
        return _fbits(rng.randrange(2 ** 64))          # any bit pattern (NaN payloads included)
    if k < 0.8:
        return rng.choice([rng.uniform(-1, 1), rng.gauss(0, 1e6), rng.random() * 10 ** rng.randrange(-30, 30),
                           float(rng.randrange(10 ** rng.randrange(1, 20)))])
    if k < 0.85:
        return "".join(chr(rng.choice([rng.randrange(0, 0x80), rng.randrange(0x80, 0xd800), rng.randrange(0xe000, 0x10000),
                                       rng.randrange(0x10000, 0x110000)])) for _ in range(rng.randrange(0, 6)))
    return rng.choice([None, True, False, [], {}, [[]], [{}], {"": {}}, {"a": []}, [[], [[]], {}]])


def gen_own(rng, depth):
    r = rng.random()
    if depth > 0 and r < 0.3:
        keys = rng.sample(DIRECTED_STR + c18_tree.STR_KEYS, rng.choice([0, 1, 2, 3, 5]))
        return {k: gen_own(rng, depth - 1) for k in keys}
    if depth > 0 and r < 0.55:
        return [gen_own(rng, depth - 1) for _ in range(rng.choice([0, 1, 2, 3]))]
    return gen_scalar(rng)


def gen_text_value(rng):
    m = rng.randrange(10)
    if m < 3:
        return c18_tree.gen_dict(rng, 3, rng.random() < 0.4)
    if m < 6:
        return gen_own(rng, 3)
    if m < 8:
        return {"k": gen_own(rng, 2), "µ✓": [gen_scalar(rng) for _ in range(rng.randrange(4))], "k\n": gen_scalar(rng)}
    if m < 9:
        return rng.choice(DIRECTED_STR + DIRECTED_FLOAT + DIRECTED_INT)
    return rng.choice(DIRECTED_VALUES)


def _floats_in(v, acc):
    if isinstance(v, dict):
        for e in v.values():
            _floats_in(e, acc)
    elif isinstance(v, (list, tuple)):
        for e in v:
            _floats_in(e, acc)
    elif isinstance(v, float) and math.isfinite(v):
        acc.add(_bits(v))


def _real_load(path):
    """canonical encoding of what FileSystem.load returns, or `err`"""
    from csep.core.repositories import FileSystem
    try:
        tree = FileSystem(url=path).load(_Ident)
    except ValueError:               # JSONDecodeError and UnicodeDecodeError are ValueErrors
        return "err", None
    try:
        return c18_tree.encs(tree, canon=True), tree
    except UnicodeEncodeError:       # a str holding a lone surrogate (documented divergence; never generated)
        return "lone-surrogate", tree


_FLOATS_SEEN = set()


def sec_text(run, drv, pend, rng, case, tmp):
    from csep.core.repositories import FileSystem
    b = c18_tree.B()
    path = os.path.join(tmp, "text.json")
    hand = rng.random() < 0.3
    if hand:
        name, bs = rng.choice(HAND)
        run.case(case, ("text-hand", name))
        open(path, "wb").write(bs)
        loaded, tree = _real_load(path)
        pend.append(("eq:c18_text_parse", dict(case, text=name), drv.ask("c18_text_parse " + (bs.hex() or "-")), loaded))
        run.count("text:hand:" + ("error" if loaded == "err" else "ok"))
        if tree is not None:
            acc = set()
            _floats_in(tree, acc)
            _ask_floats(drv, pend, case, acc)
        return
    v = gen_text_value(rng)
    try:
        wire = c18_tree.encs(v)
    except Exception:
        run.count("text:unencodable-skipped")
        return
    run.case(case, ("text-value", wire[:80]))
    safe = c18_tree.is_safe(v)
    try:
        with b.quiet():
            FileSystem(url=path).save(v)
        data = open(path, "rb").read()
    except TypeError:
        data = None
    except ValueError:               # int beyond 4300 digits (not generated)
        run.count("text:int-too-long-skipped")
        return
    i = drv.ask("c18_text_render " + wire)
    if data is None:
        pend.append(("text-render", dict(case, op="c18_text_render"), i, ("err", None, safe)))
        run.count("text:TypeError")
        return
    loaded, tree = _real_load(path)
    pend.append(("text-render", dict(case, op="c18_text_render"), i, (loaded, data, safe)))
    # (A) the model's parser on the real file
    pend.append(("eq:c18_text_parse", dict(case, what="file written by FileSystem.save"), drv.ask("c18_text_parse " + (data.hex() or "-")), loaded))
    run.count("text:written")
    # ORACLE: safe data survives
    if safe and loaded != "err" and not c18_tree.same(c18_tree.py_norm(v), tree):
        run.oracle_failure(dict(case, note="text"), f"safe value {v!r} written by FileSystem.save loads back as {tree!r}")
    if safe and loaded == "err":
        run.oracle_failure(dict(case, note="text"), f"the file FileSystem.save wrote for the safe value {v!r} cannot be loaded")
    # (C) truncated file
    if len(data) > 2 and data[:1] in b"[{":
        cut = rng.randrange(1, len(data))
        open(path, "wb").write(data[:cut])
        l2, _ = _real_load(path)
        pend.append(("eq:c18_text_parse", dict(case, what=f"prefix of {cut} bytes"), drv.ask("c18_text_parse " + data[:cut].hex()), l2))
        run.count("text:truncated-file")
    if tree is not None:
        acc = set()
        _floats_in(tree, acc)
        _ask_floats(drv, pend, case, acc)


def _ask_floats(drv, pend, case, acc):
    for bts in sorted(acc):
        if bts not in _FLOATS_SEEN:
            _FLOATS_SEEN.add(bts)
            pend.append(("eq:c18_text_floatok", dict(case, double=_fbits(bts).hex()), drv.ask(f"c18_text_floatok {bts}"), "1"))


def flush_one(run, what, case, o, impl):
    if what != "text-render":
        return False
    loaded, data, safe = impl
    if (loaded == "err") != (o == "err"):
        if loaded == "err" and data is not None:
            run.mismatch(case, "the file the library wrote does not load", o[:120])
        elif not safe:
            # whether an UNSAFE value (mixed / non-str keys …) can be written at all depends on json.dump options; not judged
            run.count("text:writability-differs(unsafe value, not judged)")
        else:
            run.mismatch(case, loaded[:200], o[:200])
        return True
    if o == "err":
        return True
    try:
        model_text = bytes.fromhex(o)
        tree = json.loads(model_text.decode("utf-8"))
        got = c18_tree.encs(tree, canon=True)
    except Exception as e:
        run.mismatch(case, f"the model's text is not loadable by json.loads: {type(e).__name__}", o[:200])
        return True
    if got != loaded:
        if not safe:
            run.count("text:written-form-of-unsafe-value-differs(not judged)")
            return True
        run.mismatch(case, loaded[:300], "model text denotes " + got[:300])
    run.count("text:bytes-identical" if model_text == data else "text:layout-differs")
    return True


c18_tree.RUNNERS["text"] = sec_text


def run_all(run, drv, pend, rng, thorough, tmp):
    _FLOATS_SEEN.clear()
    for _ in range(4000 if thorough else 500):
        c18_tree.run_case(run, drv, pend, "text", rng.randrange(2 ** 31), tmp)


# ----------------------------------------------------------------------------- other process environments (locale / encoding)
# Like the local time zones of C15: nothing in the property may depend on the text encoding of the process.  A sample of
# results (every class; non-ASCII forecast / catalog / test names), one real evaluation and regions with non-ASCII names go
# through EVERY writer / reader pairing of the library in a child process per environment (harness/c18_child.py).
ENVS = {"C-locale-ascii": {"LC_ALL": "C", "LANG": "C", "PYTHONUTF8": "0", "PYTHONCOERCECLOCALE": "0"},
        "C.UTF-8": {"LC_ALL": "C.UTF-8", "LANG": "C.UTF-8", "PYTHONUTF8": "0", "PYTHONCOERCECLOCALE": "0"},
        "utf8-mode": {"LC_ALL": "C", "LANG": "C", "PYTHONUTF8": "1"}}
NAME_PARTS = ["ETAS", "HKJ", "Università", "Zürich", "modèle", "catálogo", "ΕΤΑΣ", "地震",
              "каталог", "日本気象庁", "\U0001F30B", "naïve", "Å", "ß", "İstanbul",
              "v2.1", "test", "µ", "✓", "￥", "\U00010348", "​", "x y", "a\"b", "c\\d", "ÿ", "Ā"]


def gen_name(rng):
    k = rng.random()
    if k < 0.15:
        return rng.choice(["ETAS-v2", "HKJ", "comcat 2010-2020", ""])
    name = rng.choice(["-", " ", "_", ""]).join(rng.choice(NAME_PARTS) for _ in range(rng.randrange(1, 4)))
    if rng.random() < 0.2:
        name = rng.choice([" ", "\t", "  "]) + name if rng.random() < 0.5 else name + rng.choice([" ", "\n", "  "])
    return name


def gen_env_cases(rng, classes, n):
    cases = []
    for i in range(n):
        cls = classes[i % len(classes)]
        cases.append(dict(id=len(cases), kind="result", cls=cls, name=gen_name(rng), sim_name=gen_name(rng), obs_name=gen_name(rng),
                          status=rng.choice(["normal", "not-valid", gen_name(rng)]), repr=gen_name(rng),
                          td=rng.choice([[1.0, 2.5, 3.0], [], ["nan", 1.0], ["-inf", "inf", 0.0], [4, 5]]),
                          stat=rng.choice([1.5, "nan", "-inf", 3, None]), quantile=rng.choice([[0.25, 0.75], 0.5, None, ["nan", 1.0]]),
                          min_mw=rng.choice([4.95, 5, None])))
    cases.append(dict(id=len(cases), kind="eval", sim_name=gen_name(rng), obs_name=gen_name(rng), region_name=gen_name(rng), event_id="a"))
    for _ in range(2):
        cases.append(dict(id=len(cases), kind="region", name=gen_name(rng), lon0=rng.choice([-30.0, 12.5, 100.25]),
                          lat0=rng.choice([-20.0, 41.5]), dh=rng.choice([0.1, 0.25, 0.5]), nx=rng.randrange(2, 5), ny=rng.randrange(2, 5)))
    return cases


def run_child(envname, cases):
    """returns (report dict | None, error text)"""
    import subprocess
    import sys
    from .core import REPO
    env = {k: v for k, v in os.environ.items() if k not in ("LC_ALL", "LANG", "LC_CTYPE", "PYTHONUTF8", "PYTHONCOERCECLOCALE",
                                                           "PYTHONIOENCODING")}
    env.update(ENVS[envname])
    p = subprocess.run([sys.executable, os.path.join(os.path.dirname(os.path.abspath(__file__)), "c18_child.py")],
                       input=json.dumps(dict(repo=REPO, cases=cases)).encode("ascii"), env=env, capture_output=True, timeout=600)
    lines = [l for l in p.stdout.decode("ascii", "replace").splitlines() if l.startswith("{")]
    if p.returncode != 0 or not lines:
        return None, (p.stderr.decode("utf-8", "replace")[-600:] or f"exit {p.returncode}")
    return json.loads(lines[-1]), ""


def check_env(run, envname, cases):
    rep, err = run_child(envname, cases)
    if rep is None:
        raise RuntimeError(f"harness: the child process for environment {envname} failed: {err}")
    run.count(f"env:{envname}:encoding={rep['encoding']}:utf8_mode={rep['utf8_mode']}", rep["done"])
    by = {}
    for f in rep["failures"]:
        by.setdefault(f["id"], []).append(f)
    for c in cases:
        case = dict(mode="env", env=envname, spec=dict(c, id=0))
        nonascii = any(isinstance(v, str) and not v.isascii() for v in c.values())
        run.case(case, ("env", envname, c["kind"], c.get("cls"), nonascii))
        for f in by.get(c["id"], []):
            if f["pair"] == "build":
                run.count("env:case-unbuildable(not judged)")
                continue
            run.oracle_failure(dict(case, pair=f["pair"]), f"[process environment {envname}, preferred encoding {rep['encoding']}] {f['detail']}")


def run_envs(run, rng, thorough, classes):
    envs = ["C-locale-ascii"] + (["C.UTF-8", "utf8-mode"] if thorough else [])
    for envname in envs:
        check_env(run, envname, gen_env_cases(rng, sorted(classes), 200 if thorough else 36))
    run.extra["process_environments"] = envs


# ----------------------------------------------------------------------------- nesting limit of the loader (Model/JsonLimits.lean)
def measure_load_limit():
    """the number of nested containers json.loads accepts in this interpreter (C recursion limit; independent of the Python stack)"""
    def ok(d):
        try:
            json.loads("[" * d + "]" * d)
            return True
        except RecursionError:
            return False
    lo, hi = 1, 1 << 20
    while lo < hi:
        m = (lo + hi + 1) // 2
        if ok(m):
            lo = m
        else:
            hi = m - 1
    return lo


def check_depth(run, drv, pend, tmp):
    """files nested just below / at / beyond the limit through the real FileSystem.load: a value or RecursionError, as `loadLimited`"""
    from csep.core.repositories import FileSystem
    L = measure_load_limit()
    run.extra["json_load_nesting_limit"] = L
    path = os.path.join(tmp, "deep.json")
    for kind in ("a", "o", "m"):
        per = 2 if kind == "m" else 1
        for d in sorted({1, 2, max(1, L // per - 1), max(1, L // per), L // per + 1, L // per + 7}):
            if kind == "a":
                txt = "[" * d + "]" * d
            elif kind == "o":
                txt = '{"k":' * d + "1" + "}" * d
            else:
                txt = '[{"k":' * d + "0" + "}]" * d
            open(path, "w").write(txt)
            case = dict(mode="text-depth", kind=kind, depth=d, limit=L)
            run.case(case, ("text-depth", kind, d - L // per))
            try:
                FileSystem(url=path).load(_Ident)
                impl = "0"
            except RecursionError:
                impl = "2"
            except ValueError:
                impl = "1"
            pend.append(("eq:c18_text_depth", case, drv.ask(f"c18_text_depth {L} {kind} {d}"), impl))
            run.count(f"text-depth:{'value' if impl == '0' else 'RecursionError' if impl == '2' else 'invalid'}")
