#!/usr/bin/env python3
"""Run /repo's pinned suite (guard off) and compare with /root/.vp/BASELINE.json stable_pass."""
import json, os, subprocess, sys, tempfile, xml.etree.ElementTree as ET
repo = sys.argv[1] if len(sys.argv) > 1 else "/repo"
base = json.load(open("/root/.vp/BASELINE.json"))
with tempfile.TemporaryDirectory() as d:
    x = os.path.join(d, "j.xml")
    env = dict(os.environ); env.pop("SCECCODE_PYCSEP_VERIF", None); env["PYTHONDONTWRITEBYTECODE"] = "1"
    subprocess.run(["/venv/bin/python", "-m", "pytest", "-ra", "-q", "-p", "no:cacheprovider", "--timeout=900",
                    "--continue-on-collection-errors", f"--junitxml={x}"], cwd=repo, env=env,
                   stdout=subprocess.DEVNULL, stderr=subprocess.DEVNULL)
    passed = set()
    for tc in ET.parse(x).getroot().iter("testcase"):
        if not any(c.tag in ("failure", "error", "skipped") for c in tc):
            passed.add(f"{tc.get('classname')}::{tc.get('name')}")
missing = [t for t in base["stable_pass"] if t not in passed]
print(f"passed {len(passed)}; baseline {len(base['stable_pass'])}; baseline tests not passing: {len(missing)}")
for m in missing: print("  NOT PASSING:", m)
sys.exit(1 if missing else 0)
