#!/venv/bin/python
"""Audit the whole Lean project as a stranger would: build, grep every project file for forbidden constructs
(comments stripped), `#print axioms` for every theorem of every Properties file, optional leanchecker.
usage: tools/audit_all.py [--leanchecker]"""
import os, re, sys
sys.path.insert(0, os.path.dirname(os.path.dirname(os.path.abspath(__file__))))
from harness import core
ok, out, secs = core.lean_build()
print(f"lake build: {'ok' if ok else 'FAILED'} in {secs:.1f}s")
if not ok:
    print(out[-2000:]); sys.exit(1)
bad = 0
for root, _, files in os.walk(os.path.join(core.LEAN, "PycsepVerif")):
    for f in files:
        if f.endswith(".lean"):
            m = core._BAD.search(core.strip_comments(open(os.path.join(root, f)).read()))
            if m:
                print("FORBIDDEN", os.path.join(root, f), m.group(0)); bad += 1
props = sorted({f[:3] for f in os.listdir(os.path.join(core.LEAN, "PycsepVerif", "Properties")) if re.match(r"C\d\d", f)})
tot = dis = 0
axioms = set()
for p in props:
    a = core.audit(p, [])
    tot += a["obligations"]; dis += a["discharged"]; axioms |= set(a["axioms"])
    print(f"{p}: {a['discharged']}/{a['obligations']} theorems within allowed axioms; problems: {a['problems'] or 'none'}")
    bad += len(a["problems"])
    if "--leanchecker" in sys.argv:
        okc, outc, s = core.leanchecker(p)
        print(f"    leanchecker {'ok' if okc else 'REJECTED'} ({s:.0f}s)"); bad += (not okc)
print(f"total {dis}/{tot}; axioms seen: {sorted(axioms)}; {'CLEAN' if not bad else 'PROBLEMS: ' + str(bad)}")
sys.exit(1 if bad else 0)
