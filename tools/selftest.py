#!/usr/bin/env python3
"""Run every claimed check (MANIFEST.json) for several seeds on the unchanged tree; report exits, VIOLATION lines, times.
usage: tools/selftest.py [--tier quick] [--seeds 0,1,2] [--jobs 4] [ids...]"""
import argparse, json, os, subprocess, sys, time
from concurrent.futures import ThreadPoolExecutor
V = os.path.dirname(os.path.dirname(os.path.abspath(__file__)))
ap = argparse.ArgumentParser()
ap.add_argument("ids", nargs="*"); ap.add_argument("--tier", default="quick"); ap.add_argument("--seeds", default="0,1,2")
ap.add_argument("--jobs", type=int, default=4)
a = ap.parse_args()
man = json.load(open(os.path.join(V, "MANIFEST.json")))
ids = a.ids or [c["property_id"] for c in man["checks"]]
def one(job):
    pid, seed = job
    t0 = time.time()
    p = subprocess.run([os.path.join(V, "check"), pid, "--tier", a.tier], cwd=V, env=dict(os.environ, VERIF_SEED=str(seed)),
                       stdout=subprocess.PIPE, stderr=subprocess.STDOUT, text=True)
    lines = p.stdout.strip().splitlines()
    flag = [l for l in lines if l.startswith(("VIOLATION", "KNOWN-FINDING"))]
    return pid, seed, p.returncode, round(time.time() - t0, 1), flag, (lines[-1] if lines else "")
bad = 0
with ThreadPoolExecutor(a.jobs) as ex:
    for pid, seed, rc, dt, flag, last in ex.map(one, [(i, int(s)) for i in ids for s in a.seeds.split(",")]):
        print(f"{pid} seed={seed} exit={rc} {dt}s {last[-150:]}")
        for f in flag: print("    ", f[:200])
        bad += rc != 0
print("NOT CLEAN" if bad else "all clean")
sys.exit(1 if bad else 0)
