#!/usr/bin/env python3
"""Merge a builder's work copy (/tmp/w_<tag>/verif) into /verif: new files are copied, files that exist in /verif and
differ are reported (copied only with --force-file <relpath>), REGISTER lines of Driver.lean / PycsepVerif.lean are merged."""
import filecmp, os, re, shutil, sys
V = os.path.dirname(os.path.dirname(os.path.abspath(__file__)))
src = sys.argv[1].rstrip("/")
force = set(sys.argv[2:])
DIRS = ["lean/PycsepVerif/Model", "lean/PycsepVerif/Source", "lean/PycsepVerif/Proofs", "lean/PycsepVerif/Properties", "lean/PycsepVerif/Drive",
        "lean/PycsepVerif", "harness", "notes", "corpus", "tools"]
copied, differ = [], []
for d in DIRS:
    sdir = os.path.join(src, d)
    if not os.path.isdir(sdir):
        continue
    for root, dirs, files in os.walk(sdir):
        if d == "lean/PycsepVerif" and root != sdir:
            continue
        dirs[:] = [x for x in dirs if x not in ("__pycache__", ".lake")]
        for f in files:
            if f.endswith((".pyc", ".olean")) or f == "PycsepVerif.lean":
                continue
            sp = os.path.join(root, f)
            rel = os.path.relpath(sp, src)
            dp = os.path.join(V, rel)
            if not os.path.exists(dp):
                os.makedirs(os.path.dirname(dp), exist_ok=True)
                shutil.copy2(sp, dp); copied.append(rel)
            elif not filecmp.cmp(sp, dp, shallow=False):
                if rel in force:
                    shutil.copy2(sp, dp); copied.append(rel + " (forced)")
                else:
                    differ.append(rel)

def merge_register(rel, marker_re):
    sp, dp = os.path.join(src, rel), os.path.join(V, rel)
    s_lines = open(sp).read().splitlines()
    d_text = open(dp).read()
    d_lines = d_text.splitlines()
    new = []
    for l in s_lines:
        t = l.strip()
        if not t or t.startswith("--"):
            continue
        if re.match(marker_re, t) and t not in [x.strip() for x in d_lines]:
            new.append(l)
    return new

# imports in PycsepVerif.lean
add = merge_register("lean/PycsepVerif.lean", r"import PycsepVerif\.")
if add:
    p = os.path.join(V, "lean/PycsepVerif.lean")
    s = open(p).read()
    s = s.replace("-- REGISTER-LIB", "\n".join(add) + "\n-- REGISTER-LIB")
    open(p, "w").write(s)
# Driver.lean: imports and handler lines
addi = merge_register("lean/Driver.lean", r"import PycsepVerif\.Drive\.")
addh = merge_register("lean/Driver.lean", r",?\s*Drive\.\w+\.handle,?$")
if addi or addh:
    p = os.path.join(V, "lean/Driver.lean")
    s = open(p).read()
    if addi:
        s = s.replace("-- REGISTER-IMPORT", "\n".join(addi) + "\n-- REGISTER-IMPORT")
    for h in addh:
        name = re.search(r"(Drive\.\w+\.handle)", h).group(1)
        if name in s:
            continue
        s = s.replace("  -- REGISTER-HANDLER", f"  , {name}\n  -- REGISTER-HANDLER")
    open(p, "w").write(s)
print("copied:", *copied, sep="\n  ")
print("registered imports:", add, addi, "handlers:", addh)
if differ:
    print("DIFFER (not copied; pass the relpath to force):", *differ, sep="\n  ")
