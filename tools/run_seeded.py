#!/usr/bin/env python3
"""Run the checks against the seeded breakages in /verif/seeded/<id>/ (patch.diff, demo.py, meta.json).

For each seeded change: make a scratch worktree of /repo outside /repo and /verif, apply the patch, confirm the
demonstration fails there and passes on the unchanged tree, run the owning property's check (and any extra checks
named in meta.json "also") with VERIF_REPO pointing at the scratch tree, record the verdicts, remove the worktree.
With --in-place the patch is applied to /repo itself and reverted afterwards (git apply / git checkout -- .).
Writes seeded/RESULTS.json and prints a table."""
import argparse, json, os, subprocess, sys, time, shutil
V = os.path.dirname(os.path.dirname(os.path.abspath(__file__)))
REPO = "/repo"

def sh(cmd, cwd=None, env=None, timeout=3600):
    p = subprocess.run(cmd, cwd=cwd, env=env, stdout=subprocess.PIPE, stderr=subprocess.STDOUT, text=True, timeout=timeout)
    return p.returncode, p.stdout

def main():
    ap = argparse.ArgumentParser()
    ap.add_argument("ids", nargs="*")
    ap.add_argument("--tier", default="quick")
    ap.add_argument("--seed", default="0")
    ap.add_argument("--in-place", action="store_true")
    ap.add_argument("--suite", action="store_true", help="also run the repo's test suite on the patched tree")
    ap.add_argument("--private-copy", action="store_true",
                    help="run the checks from a private copy of /verif (own Lean build directory), so that parallel "
                         "instances do not wait for, or rebuild, each other's generated Lean files")
    a = ap.parse_args()
    VC = V
    if a.private_copy:
        VC = f"/tmp/vseed_{os.getpid()}/verif"
        os.makedirs(os.path.dirname(VC), exist_ok=True)
        subprocess.run(["rsync", "-a", "--exclude", ".git", "--exclude", "replays", "--exclude", "seeded",
                        "--exclude", "evidence_other", V + "/", VC + "/"], check=True)
    try:
        _main(a, VC)
    finally:
        if a.private_copy:
            shutil.rmtree(os.path.dirname(VC), ignore_errors=True)


def _main(a, VC):
    sd = os.path.join(V, "seeded")
    ids = a.ids or sorted(d for d in os.listdir(sd) if os.path.isdir(os.path.join(sd, d)))
    results = {}
    if os.path.exists(os.path.join(sd, "RESULTS.json")):
        results = json.load(open(os.path.join(sd, "RESULTS.json")))
    for sid in ids:
        d = os.path.join(sd, sid)
        meta = json.load(open(os.path.join(d, "meta.json")))
        props = [meta["property"]] + meta.get("also", [])
        wt = f"/tmp/seedrun_{sid}_{os.getpid()}"
        if a.in_place:
            tree = REPO
            rc, out = sh(["git", "-C", REPO, "apply", os.path.join(d, "patch.diff")])
        else:
            tree = wt
            sh(["git", "-C", REPO, "worktree", "add", "--detach", wt, "HEAD"])
            rc, out = sh(["git", "-C", wt, "apply", os.path.join(d, "patch.diff")])
        rec = dict(property=meta["property"], summary=meta.get("summary", ""), checks={})
        try:
            if rc != 0:
                rec["error"] = "patch does not apply: " + out[-300:]
            else:
                env = dict(os.environ, PYTHONPATH=tree, PYTHONDONTWRITEBYTECODE="1", PYTHONWARNINGS="ignore")
                rec["demo_modified_exit"] = sh(["/venv/bin/python", os.path.join(d, "demo.py")], cwd=tree, env=env, timeout=600)[0]
                env0 = dict(os.environ, PYTHONPATH=REPO, PYTHONDONTWRITEBYTECODE="1", PYTHONWARNINGS="ignore")
                if not a.in_place:
                    rec["demo_unmodified_exit"] = sh(["/venv/bin/python", os.path.join(d, "demo.py")], cwd=REPO, env=env0, timeout=600)[0]
                if a.suite:
                    rc2, out2 = sh([os.path.join(V, "tools", "baseline.py"), tree])
                    rec["suite"] = out2.strip().splitlines()[0] if out2.strip() else ""
                    rec["suite_ok"] = rc2 == 0
                for p in props:
                    if not os.path.exists(os.path.join(VC, "harness", p.lower() + ".py")):
                        rec["checks"][p] = dict(exit=None, note="check not built")
                        continue
                    t0 = time.time()
                    envc = dict(os.environ, VERIF_REPO=tree, VERIF_SEED=a.seed)
                    rcc, outc = sh([os.path.join(VC, "check"), p, "--tier", a.tier], cwd=VC, env=envc, timeout=3000)
                    vio = [l for l in outc.splitlines() if l.startswith("VIOLATION")]
                    rec["checks"][p] = dict(exit=rcc, violation=vio[:2], wall_s=round(time.time() - t0, 1),
                                            tail=outc.strip().splitlines()[-1][-200:] if outc.strip() else "")
                    # evidence was overwritten by a run against a patched tree: do not leave it behind
        finally:
            if a.in_place:
                sh(["git", "-C", REPO, "checkout", "--", "."])
            else:
                sh(["git", "-C", REPO, "worktree", "remove", "--force", wt])
                shutil.rmtree(wt, ignore_errors=True)
        prev = results.get(sid, {})
        for k in ("suite", "suite_ok", "demo_unmodified_exit"):
            if k not in rec and k in prev:
                rec[k] = prev[k]
        results[sid] = rec
        caught = any(c.get("exit") == 1 for c in rec["checks"].values())
        rec["kind"] = meta.get("kind", "breaking")
        if rec["kind"] == "harmless":
            verdict = "FALSE-ALARM" if caught else ("green" if all(c.get("exit") == 0 for c in rec["checks"].values()) else "ERROR")
        else:
            verdict = "CAUGHT" if caught else "missed"
            if meta.get("scope") == "outside":      # judged outside the property texts (meta.json scope_reason): recorded, not counted
                verdict = "outside(" + verdict + ")"
        rec["verdict"] = verdict
        # what the checks said the first time this change was run (before any strengthening) is kept
        rec["first_verdict"] = prev.get("first_verdict") or prev.get("verdict") or verdict
        print(f"{sid:10s} {verdict}  demo(mod)={rec.get('demo_modified_exit')} "
              f"demo(orig)={rec.get('demo_unmodified_exit')}  " +
              " ".join(f"{p}:exit={c.get('exit')}" for p, c in rec["checks"].items()), flush=True)
        # several instances may run in parallel on disjoint ids: merge under a lock
        import fcntl
        with open(os.path.join(sd, ".results.lock"), "w") as lk:
            fcntl.flock(lk, fcntl.LOCK_EX)
            rp = os.path.join(sd, "RESULTS.json")
            cur = json.load(open(rp)) if os.path.exists(rp) else {}
            cur[sid] = rec
            json.dump(dict(sorted(cur.items())), open(rp, "w"), indent=1)

if __name__ == "__main__":
    main()
