#!/usr/bin/env python3
"""Import seeded changes delivered by seeder agents (dir with <ID>_<k>/{patch.diff,demo.py,meta.json}) into /verif/seeded/.
usage: tools/import_seeded.py <outdir> [ids...]   (existing directories are not overwritten)"""
import json, os, shutil, sys
V = os.path.dirname(os.path.dirname(os.path.abspath(__file__)))
src = sys.argv[1]; want = sys.argv[2:]
for d in sorted(os.listdir(src)):
    p = os.path.join(src, d)
    if not os.path.isdir(p) or (want and d not in want):
        continue
    need = ["patch.diff", "demo.py", "meta.json"]
    if not all(os.path.exists(os.path.join(p, f)) for f in need):
        print("incomplete", d); continue
    dst = os.path.join(V, "seeded", d)
    if os.path.exists(dst):
        continue
    os.makedirs(dst)
    for f in need:
        shutil.copy2(os.path.join(p, f), os.path.join(dst, f))
    m = json.load(open(os.path.join(dst, "meta.json")))
    m.setdefault("kind", "harmless" if "_H" in d else "breaking")
    m["round"] = int(os.environ.get("SEED_ROUND", "4"))
    json.dump(m, open(os.path.join(dst, "meta.json"), "w"), indent=1)
    print("imported", d, m["kind"])
