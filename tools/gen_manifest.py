#!/usr/bin/env python3
"""Regenerates /verif/MANIFEST.json from the per-property table below.
A property is claimed when harness/cXX.py and lean/PycsepVerif/Properties/CXX.lean both exist."""
import json, os
V = os.path.dirname(os.path.dirname(os.path.abspath(__file__)))

COMMON_NOTE = ("Trusted: Lean 4.33 kernel; axioms propext / Classical.choice / Quot.sound only (audited with #print axioms "
               "on every run; no sorry/admit/native_decide/bv_decide/own axioms). The theorem is about a hand-written "
               "Lean model; the tie to /repo's working tree is the correspondence run of this check (real pyCSEP and the "
               "model's executable definitions on the same generated inputs, diffed) plus a direct exact-arithmetic oracle "
               "on the implementation's outputs. ")

import ast

def meta(pid):
    """LEVEL_TEXT / LEVEL_NOTE / DESIGN_REF / TECHNIQUE string constants of harness/cXX.py, read without importing it"""
    path = os.path.join(V, "harness", pid.lower() + ".py")
    out = {}
    if not os.path.exists(path):
        return out
    for node in ast.parse(open(path).read()).body:
        if isinstance(node, ast.Assign) and len(node.targets) == 1 and isinstance(node.targets[0], ast.Name):
            name = node.targets[0].id
            if name in ("LEVEL_TEXT", "LEVEL_NOTE", "DESIGN_REF", "TECHNIQUE", "NOT_APPLICABLE"):
                try:
                    out[name] = ast.literal_eval(node.value)
                except Exception:
                    pass
    return out

DEFAULT_TECH = "Lean 4 theorem over an executable model + model/implementation correspondence check"

def main():
    props = [json.loads(l) for l in open(os.path.join(V, "properties.jsonl"))]
    checks, na = [], []
    for p in props:
        pid = p["id"]
        have = os.path.exists(os.path.join(V, "harness", pid.lower() + ".py")) and \
               os.path.exists(os.path.join(V, "lean", "PycsepVerif", "Properties", pid + ".lean"))
        m = meta(pid)
        if have and "LEVEL_TEXT" in m and "NOT_APPLICABLE" not in m:
            checks.append(dict(
                property_id=pid,
                quick_cmd=f"./check {pid} --tier quick",
                thorough_cmd=f"./check {pid} --tier thorough",
                evidence_file=f"evidence/{pid}.json",
                replay_cmd_template=f"./check {pid} --replay {{path}}",
                engine="lean4-model+correspondence",
                level_claimed=dict(category="proof", text=m["LEVEL_TEXT"], design_ref=m.get("DESIGN_REF", "DESIGN.md §4 " + pid)),
                level_note=COMMON_NOTE + m.get("LEVEL_NOTE", ""),
                technique=m.get("TECHNIQUE", DEFAULT_TECH)))
        else:
            na.append(dict(property_id=pid, reason=m.get(
                "NOT_APPLICABLE", "check not built yet in this round (planned: Lean model + theorems + correspondence, see DESIGN.md §4); not claimed until it runs")))
    man = dict(
        version=1,
        setup_cmd="./setup.sh",
        hooks=dict(guard="SCECCODE_PYCSEP_VERIF",
                   enable="no source hooks are needed: every observation point is a public API; checks set SCECCODE_PYCSEP_VERIF=1 and import csep from /repo's working tree",
                   baseline_off_cmd="cd /repo && /venv/bin/python -m pytest -ra -q -p no:cacheprovider --timeout=900 --continue-on-collection-errors",
                   source_commits=[], add_only=True),
        engines=[dict(name="lean4-model+correspondence", path="lean/ harness/ check",
                      serves_properties=[c["property_id"] for c in checks],
                      kind_free_text="Lean 4 models and theorems (lean/PycsepVerif), native line-protocol driver (lean/Driver.lean), Python correspondence harness calling real pyCSEP (harness/), entry point ./check")],
        checks=checks,
        notes="See DESIGN.md. Known findings: known_findings.json. Seeded breakages: seeded/.",
        not_applicable=na)
    json.dump(man, open(os.path.join(V, "MANIFEST.json"), "w"), indent=1)
    print(f"claimed {len(checks)}; not claimed {len(na)}")

if __name__ == "__main__":
    main()
