#!/usr/bin/env python3
"""Merge an owner's copy made from commit BASE: force exactly the files the owner changed relative to BASE; report
conflicts (changed both in /verif since BASE and by the owner). usage: integrate_owner.py <copy> <base-commit> [<base-commit> ...]   (a file counts as touched by the owner iff it differs from its version in every base)"""
import os, subprocess, sys
V = os.path.dirname(os.path.dirname(os.path.abspath(__file__)))
src, bases = sys.argv[1].rstrip("/"), sys.argv[2:]
out = subprocess.run([os.path.join(V, "tools/integrate.py"), src], stdout=subprocess.PIPE, text=True).stdout
print(out)
differ = []
if "DIFFER" in out:
    differ = [l.strip() for l in out.split("DIFFER", 1)[1].splitlines()[1:] if l.strip()]
force, conflicts = [], []
for rel in differ:
    if rel.startswith("tools/") or rel in ("harness/core.py",):
        continue
    bs = [subprocess.run(["git", "-C", V, "show", f"{b}:{rel}"], stdout=subprocess.PIPE).stdout for b in bases]
    o = open(os.path.join(src, rel), "rb").read()
    c = open(os.path.join(V, rel), "rb").read()
    if o in bs:
        continue            # owner did not touch it since one of the bases
    if c not in bs:
        conflicts.append(rel)
    else:
        force.append(rel)
print("FORCE:", force)
print("CONFLICTS (changed on both sides; merge by hand):", conflicts)
if force:
    print(subprocess.run([os.path.join(V, "tools/integrate.py"), src, *force], stdout=subprocess.PIPE, text=True).stdout[-1500:])
