#!/usr/bin/env python3
"""Merge an owner's copy made from commit BASE: force exactly the files the owner changed relative to BASE; report
conflicts (changed both in /verif since BASE and by the owner). usage: integrate_owner.py <copy> <base-commit>"""
import os, subprocess, sys
V = os.path.dirname(os.path.dirname(os.path.abspath(__file__)))
src, base = sys.argv[1].rstrip("/"), sys.argv[2]
out = subprocess.run([os.path.join(V, "tools/integrate.py"), src], stdout=subprocess.PIPE, text=True).stdout
print(out)
differ = []
if "DIFFER" in out:
    differ = [l.strip() for l in out.split("DIFFER", 1)[1].splitlines()[1:] if l.strip()]
force, conflicts = [], []
for rel in differ:
    if rel.startswith("tools/") or rel in ("harness/core.py",):
        continue
    b = subprocess.run(["git", "-C", V, "show", f"{base}:{rel}"], stdout=subprocess.PIPE).stdout
    o = open(os.path.join(src, rel), "rb").read()
    c = open(os.path.join(V, rel), "rb").read()
    if o == b:
        continue            # owner did not touch it
    if c != b:
        conflicts.append(rel)
    else:
        force.append(rel)
print("FORCE:", force)
print("CONFLICTS (changed on both sides; merge by hand):", conflicts)
if force:
    print(subprocess.run([os.path.join(V, "tools/integrate.py"), src, *force], stdout=subprocess.PIPE, text=True).stdout[-1500:])
