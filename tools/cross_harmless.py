#!/usr/bin/env python3
"""Run the HARMLESS seeded patches against the checks of OTHER properties anchored in the files they touch.

A change is delivered for one property but lands in code several properties are anchored in; every check may be run on it, and a
VIOLATION from any of them on a harmless rewrite is a false alarm (unless the rewrite really breaks that other property: decide by
the replay). usage: tools/cross_harmless.py <worker k> <workers n> <first pair> <last pair>   (pairs are shuffled with a fixed seed;
start n instances with k = 0..n-1; results in /tmp/cross_<k>.log, failing runs in /tmp/cross_fail_<id>_<prop>.{log,json})"""
import json, os, re, subprocess, sys, shutil, random
V = os.path.dirname(os.path.dirname(os.path.abspath(__file__)))
props = [json.loads(l) for l in open(os.path.join(V, "properties.jsonl"))]
anch = {p["id"]: set(p["anchors"]["files"]) for p in props}
flat = []
for sid in sorted(os.listdir(os.path.join(V, "seeded"))):
    d = os.path.join(V, "seeded", sid)
    if not os.path.isdir(d):
        continue
    m = json.load(open(os.path.join(d, "meta.json")))
    if m.get("kind") != "harmless":
        continue
    files = set(re.findall(r"^\+\+\+ b/(\S+)", open(os.path.join(d, "patch.diff")).read(), re.M))
    flat += [(sid, p) for p, fs in anch.items() if p != m["property"] and fs & files]
random.Random(7).shuffle(flat)
k, n, first, last = (int(x) for x in sys.argv[1:5])
mine = flat[first:last][k::n]
VC = f"/tmp/vcross_{os.getpid()}/verif"
os.makedirs(os.path.dirname(VC))
subprocess.run(["rsync", "-a", "--exclude", ".git", "--exclude", "replays", "--exclude", "seeded", "--exclude", "evidence_other",
                V + "/", VC + "/"], check=True)
out = open(f"/tmp/cross_{k}.log", "w")
bysid = {}
for sid, p in mine:
    bysid.setdefault(sid, []).append(p)
try:
    for sid, ps in bysid.items():
        wt = f"/tmp/crosswt_{sid}_{os.getpid()}"
        subprocess.run(["git", "-C", "/repo", "worktree", "add", "--detach", wt, "HEAD"], stdout=subprocess.DEVNULL, stderr=subprocess.DEVNULL)
        rc = subprocess.run(["git", "-C", wt, "apply", os.path.join(V, "seeded", sid, "patch.diff")]).returncode
        for p in ps:
            if rc != 0:
                print(sid, p, "patch-does-not-apply", file=out, flush=True)
                continue
            env = dict(os.environ, VERIF_REPO=wt, VERIF_SEED="0")
            r = subprocess.run([VC + "/check", p, "--tier", "quick"], cwd=VC, env=env, stdout=subprocess.PIPE, stderr=subprocess.STDOUT,
                               text=True, timeout=3000)
            vio = [l for l in r.stdout.splitlines() if l.startswith("VIOLATION")]
            print(sid, p, "exit=%d" % r.returncode, (vio[0][-60:] if vio else ""), file=out, flush=True)
            if r.returncode != 0:
                open(f"/tmp/cross_fail_{sid}_{p}.log", "w").write(r.stdout[-6000:])
                for x in [l.split("replay=")[1].split()[0] for l in vio[:1]]:
                    if os.path.exists(x):
                        shutil.copy(x, f"/tmp/cross_fail_{sid}_{p}.json")
        subprocess.run(["git", "-C", "/repo", "worktree", "remove", "--force", wt])
finally:
    shutil.rmtree(os.path.dirname(VC), ignore_errors=True)
